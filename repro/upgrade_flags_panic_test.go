// Reproducer for the C08 findings on the server dispatch path: a request whose one-byte upgrade field carries a flag
// combination no stock client produces (NoRequest on a plain call, heartbeat / open-stream / close-stream without
// NoResponse) makes the dispatcher dereference a nil *funcs.Func or call Interface() on the zero funcs.Value.
// Obligations: (*Server).readRequestBody:pre:f != nil @funcs.(*Func).ReturnOut, (*Server).handleRequest:pre:... @(*Server).callService,
// (*Server).callService:pre:... @(*Server).sendResponse, (*Server).ServeRequest:pre:... @(*Server).sendResponse and #2.
// Each flag byte goes through (*Server).ServeRequest in pipelining mode with a scheduler that runs the dispatched
// request inline, so that the panic can be observed instead of killing the test binary.
// Run through an overlay: cd /repo && go test -overlay ov.json -vet=off -run '^TestGovcReproUpgradeFlags$' .
package rpc

import (
	"fmt"
	"sync"
	"testing"

	"github.com/hslam/socket"
)

type flagCodec struct{ flag byte }

func (c *flagCodec) Messages() socket.Messages { return nil }
func (c *flagCodec) ReadRequestHeader(ctx *Context) error {
	ctx.Seq = 7
	ctx.ServiceMethod = "FlagArith.Multiply"
	ctx.Upgrade = []byte{c.flag}
	ctx.value = []byte(`{"A":2,"B":3}`)
	return nil
}
func (c *flagCodec) ReadRequestBody(b []byte, x interface{}) error {
	if x == nil {
		return nil
	}
	return (&JSONCodec{}).Unmarshal(b, x)
}
func (c *flagCodec) WriteResponse(*Context, interface{}) error { return nil }
func (c *flagCodec) Close() error                              { return nil }

type FlagArith struct{}
type FlagReq struct{ A, B int32 }
type FlagRes struct{ Pro int32 }

func (a *FlagArith) Multiply(req *FlagReq, res *FlagRes) error { res.Pro = req.A * req.B; return nil }

// inlineSched runs a scheduled task on the calling goroutine, so that a panic of the dispatched request is observable.
type inlineSched struct{}

func (inlineSched) Schedule(task func()) { task() }
func (inlineSched) NumWorkers() int      { return 1 }
func (inlineSched) Close()               {}

func dispatchFlag(server *Server, flag byte) (panicked interface{}) {
	defer func() { panicked = recover() }()
	ctx := server.ctxPool.Get().(*Context)
	ctx.upgrade = server.getUpgrade()
	ctx.codec = &flagCodec{flag: flag}
	streams := make(map[uint64]*Context)
	wg := new(sync.WaitGroup)
	// pipelining mode (sched != nil): ServeRequest hands plain calls to sched; here sched runs them inline
	server.ServeRequest(ctx, nil, wg, inlineSched{}, nil, streams)
	return nil
}

func TestGovcReproUpgradeFlags(t *testing.T) {
	server := NewServer()
	server.SetLogLevel(OffLogLevel)
	server.Register(new(FlagArith))
	var crashing []string
	for f := 0; f < 32; f++ {
		flag := byte(f) << 3 // NoRequest<<7 | NoResponse<<6 | Heartbeat<<5 | Stream<<3
		if p := dispatchFlag(server, flag); p != nil {
			crashing = append(crashing, fmt.Sprintf("0x%02x(%v)", flag, p))
		}
	}
	if len(crashing) > 0 {
		t.Fatalf("%d upgrade flag bytes panic the server dispatcher: %v", len(crashing), crashing)
	}
}
