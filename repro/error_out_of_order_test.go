// Reproducer for the C05 finding on (*Conn).read: with client pipelining enabled, a call whose response carries an
// error is completed inline by the reader instead of through the ordered completion queue (readSched), so it can be
// signalled before an earlier successful call whose completion is still queued. Obligation:
// (*Conn).read:atcall:(*Call).done#1: isnil(conn.readSched).
// The test feeds two responses (seq 0 ok, seq 1 error) to conn.read while the ordered queue is held busy.
// Run through an overlay: cd /repo && go test -overlay ov.json -vet=off -run '^TestGovcReproErrorOutOfOrder$' .
package rpc

import (
	"errors"
	"io"
	"testing"
	"time"

	"github.com/hslam/socket"
)

type oooMessages struct{ block chan struct{} }

func (m *oooMessages) ReadMessage(buf []byte) ([]byte, error) { <-m.block; return nil, io.EOF }
func (m *oooMessages) WriteMessage([]byte) error              { return nil }
func (m *oooMessages) Close() error                           { return nil }

type oooCodec struct {
	m    *oooMessages
	next []Context
}

func (c *oooCodec) Messages() socket.Messages                { return c.m }
func (c *oooCodec) WriteRequest(*Context, interface{}) error { return nil }
func (c *oooCodec) ReadResponseHeader(ctx *Context) error {
	if len(c.next) == 0 {
		return errors.New("none")
	}
	ctx.Seq, ctx.Error = c.next[0].Seq, c.next[0].Error
	c.next = c.next[1:]
	return nil
}
func (c *oooCodec) ReadResponseBody([]byte, interface{}) error { return nil }
func (c *oooCodec) Close() error                               { return nil }

func TestGovcReproErrorOutOfOrder(t *testing.T) {
	codec := &oooCodec{m: &oooMessages{block: make(chan struct{})}}
	conn := NewConnWithCodec(codec)
	conn.SetPipelining(true)
	done := make(chan *Call, 10)
	a := conn.Go("S.A", nil, nil, done) // seq 0
	b := conn.Go("S.B", nil, nil, done) // seq 1
	time.Sleep(100 * time.Millisecond)  // both requests written (writeSched)
	// hold the ordered completion queue busy, as a slow earlier completion would
	gate := make(chan struct{})
	conn.readSched.Schedule(func() { <-gate })
	codec.next = []Context{{Seq: 0}, {Seq: 1, Error: "boom"}}
	c0 := getContext()
	conn.read(c0, false) // response of A: completion queued behind the gate
	c1 := getContext()
	conn.read(c1, false) // response of B (error): completed inline
	var first *Call
	select {
	case first = <-done:
	case <-time.After(time.Second):
	}
	close(gate)
	if first == nil {
		first = <-done
	}
	if first != a {
		if first == b {
			t.Fatalf("call B (issued second, failed) was signalled complete before call A (issued first)")
		}
		t.Fatalf("unexpected completion %p", first)
	}
}
