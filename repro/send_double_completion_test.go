// Reproducer for the C02 finding on (*Conn).send: a call whose request write fails is completed a second time,
// with its Error rewritten, when the connection's reader has already swept it (peer EOF between the call's
// registration and the failure of its write). Obligations: (*Conn).send:pre:gf_tok(call) == 2 ... @(*Call).done#2 and
// (*Conn).send:owned:write of Call.Error ...#2.
// Run through an overlay: cd /repo && go test -overlay ov.json -vet=off -run '^TestGovcReproDoubleCompletion$' .
package rpc

import (
	"errors"
	"io"
	"testing"
	"time"

	"github.com/hslam/socket"
)

type gatedMessages struct{ eof chan struct{} }

func (m *gatedMessages) ReadMessage(buf []byte) ([]byte, error) { <-m.eof; return nil, io.EOF }
func (m *gatedMessages) WriteMessage([]byte) error              { return nil }
func (m *gatedMessages) Close() error                           { return nil }

type gatedCodec struct {
	m       *gatedMessages
	inWrite chan struct{}
	release chan struct{}
}

func (c *gatedCodec) Messages() socket.Messages { return c.m }
func (c *gatedCodec) WriteRequest(*Context, interface{}) error {
	close(c.inWrite) // the call is registered in conn.pending by now
	<-c.release
	return errors.New("write failed")
}
func (c *gatedCodec) ReadResponseHeader(*Context) error          { return errors.New("unused") }
func (c *gatedCodec) ReadResponseBody([]byte, interface{}) error { return nil }
func (c *gatedCodec) Close() error                               { return nil }

func TestGovcReproDoubleCompletion(t *testing.T) {
	codec := &gatedCodec{m: &gatedMessages{eof: make(chan struct{})}, inWrite: make(chan struct{}), release: make(chan struct{})}
	conn := NewConnWithCodec(codec)
	done := make(chan *Call, 10)
	go conn.Go("S.M", nil, nil, done)
	<-codec.inWrite
	close(codec.m.eof) // peer EOF: recv sweeps the pending table and completes the call with ErrShutdown
	var first *Call
	select {
	case first = <-done:
	case <-time.After(5 * time.Second):
		t.Fatal("call was not completed by the reader")
	}
	firstErr := first.Error
	close(codec.release) // now the write fails
	select {
	case second := <-done:
		t.Fatalf("call completed twice: first Error=%v, second Error=%v", firstErr, second.Error)
	case <-time.After(500 * time.Millisecond):
	}
	if first.Error != firstErr {
		t.Fatalf("Error rewritten after completion: %v -> %v", firstErr, first.Error)
	}
}
