// Reproducer for the C10 finding on the poll-mode branch of (*Server).listen: when the connection of a poll-mode
// server ends, the EOF branch closes the codec and the per-connection queues but never stops the streams registered
// for that connection, so a stream handler blocked in ReadMessage stays blocked forever (ServeCodec, the non-poll
// path, closes every stream in its teardown). Obligation: (*Server).listen$3:post:... stream closed ...
// Run through an overlay: cd /repo && go test -overlay ov.json -vet=off -run '^TestGovcReproPollStreamLeak$' .
package rpc

import (
	"testing"
	"time"
)

type reproPollArith struct{ returned chan error }

type reproPollStream struct{ stream Stream }

func (s *reproPollStream) Connect(stream Stream) error { s.stream = stream; return nil }

func (a *reproPollArith) Stream(stream *reproPollStream) error {
	var req = &struct{ A int32 }{}
	err := stream.stream.ReadMessage(nil, req) // blocks: the client never writes
	a.returned <- err
	return err
}

func TestGovcReproPollStreamLeak(t *testing.T) {
	network, addr, codec := "tcp", "127.0.0.1:19510", "json"
	svc := &reproPollArith{returned: make(chan error, 1)}
	server := NewServer()
	server.SetLogLevel(OffLogLevel)
	server.SetPoll(true)
	server.RegisterName("ReproPoll", svc)
	go server.Listen(network, addr, codec)
	time.Sleep(100 * time.Millisecond)
	defer server.Close()
	conn, err := Dial(network, addr, codec)
	if err != nil {
		t.Skip("cannot dial loopback: " + err.Error())
	}
	if _, err := conn.NewStream("ReproPoll.Stream"); err != nil {
		t.Fatal(err)
	}
	time.Sleep(100 * time.Millisecond) // the handler is now blocked in ReadMessage
	conn.Close()                       // the connection ends
	select {
	case err := <-svc.returned:
		if err != ErrStreamShutdown {
			t.Fatalf("handler returned %v, want ErrStreamShutdown", err)
		}
	case <-time.After(3 * time.Second):
		t.Fatalf("poll-mode server: the stream handler is still blocked in ReadMessage 3 s after its connection ended")
	}
}
