// Reproducer for the C06/C11 finding on (*Conn).read: the error of a failed call is built with errors.New(ctx.Error)
// while ctx.Error (decoded by the default, pb and code header decoders without copying) aliases the pooled read buffer,
// which read() hands back to the pool right afterwards; the text of an error the caller keeps changes under later traffic.
// Obligation: (*Conn).read:atcall:buffer.(*Pool).PutBuffer#2: errarr(call.Error) == 0 || errarr(call.Error) != arr(ctx.buffer).
// Run through an overlay: cd /repo && go test -overlay ov.json -vet=off -run '^TestGovcReproErrorTextAlias$' .
package rpc

import (
	"io"
	"testing"

	"github.com/hslam/socket"
)

type aliasMessages struct{ block chan struct{} }

func (m *aliasMessages) ReadMessage(buf []byte) ([]byte, error) { <-m.block; return nil, io.EOF }
func (m *aliasMessages) WriteMessage([]byte) error              { return nil }
func (m *aliasMessages) Close() error                           { return nil }

var _ socket.Messages = (*aliasMessages)(nil)

func TestGovcReproErrorTextAlias(t *testing.T) {
	msgs := &aliasMessages{block: make(chan struct{})}
	conn := NewConnWithCodec(NewClientCodec(&JSONCodec{}, nil, msgs, 0)) // default (pb) header
	done := make(chan *Call, 1)
	call := conn.Go("S.M", &struct{}{}, &struct{}{}, done) // seq 0
	// the server's answer to seq 0: an error response, delivered in a pooled read buffer
	res := &pbResponse{Seq: 0, Error: "handler failed: disk quota exceeded"}
	frame, _ := res.Marshal()
	ctx := getContext()
	buf := conn.bufferPool.GetBuffer(0)
	ctx.buffer = buf
	ctx.data = buf[:copy(buf[:cap(buf)], frame)]
	conn.read(ctx, false)
	got := <-done
	if got != call || got.Error == nil {
		t.Fatalf("setup: %v %v", got, got.Error)
	}
	before := string([]byte(got.Error.Error())) // a real copy of the text as first seen
	// later traffic: the pool hands the same buffer to the next read, which overwrites it
	next := conn.bufferPool.GetBuffer(0)
	for i := range next[:cap(next)] {
		next[:cap(next)][i] = 'x'
	}
	for i := range buf[:cap(buf)] { // (whichever buffer the pool returned, the frame's buffer is free for reuse)
		buf[:cap(buf)][i] = 'x'
	}
	if after := got.Error.Error(); after != before {
		t.Fatalf("error text changed after the read buffer was recycled: %q -> %q", before, after)
	}
}
