// Reproducer for the known findings of C08 on the header decoders (run through an overlay:
//   cd /repo && go test -overlay ov.json -vet=off -run '^TestGovcReproDecoder' .   with ov.json mapping
//   /repo/zz_govc_repro_test.go to this file). Each sub-test fails on the unfixed tree.
package rpc

import "testing"

func govcNoPanic(t *testing.T, name string, f func()) {
	t.Run(name, func(t *testing.T) {
		defer func() {
			if r := recover(); r != nil {
				t.Fatalf("decoder panicked on a truncated frame: %v", r)
			}
		}()
		f()
	})
}

func TestGovcReproDecoderPanics(t *testing.T) {
	govcNoPanic(t, "pbRequest-08", func() { (&pbRequest{}).Unmarshal([]byte{0x08}) })
	govcNoPanic(t, "pbRequest-12", func() { (&pbRequest{}).Unmarshal([]byte{0x12}) })
	govcNoPanic(t, "pbRequest-12ff", func() { (&pbRequest{}).Unmarshal([]byte{0x12, 0x7f}) })
	govcNoPanic(t, "pbResponse-08", func() { (&pbResponse{}).Unmarshal([]byte{0x08}) })
	govcNoPanic(t, "pbResponse-1a7f", func() { (&pbResponse{}).Unmarshal([]byte{0x1a, 0x7f}) })
	govcNoPanic(t, "request-01", func() { (&request{}).Unmarshal([]byte{0x01}) })
	govcNoPanic(t, "request-empty", func() { (&request{}).Unmarshal([]byte{}) })
	govcNoPanic(t, "request-0005", func() { (&request{}).Unmarshal([]byte{0x00, 0x05}) })
	govcNoPanic(t, "response-01", func() { (&response{}).Unmarshal([]byte{0x01}) })
}

func TestGovcReproDecoderOverRead(t *testing.T) {
	// a frame that declares a 5-byte Args field but ends after the length byte; the buffer still holds older bytes
	buf := []byte{0x22, 0x05, 'S', 'E', 'C', 'R', 'T'}
	req := &pbRequest{}
	err := req.Unmarshal(buf[:2])
	if err == nil && len(req.Args) > 0 {
		t.Fatalf("decoder accepted a truncated frame and returned bytes from behind it: %q", req.Args)
	}
}
