// Reproducer for the C14 defect fixed by the "fix:" commit on (*Transport).getConn:
// a connection that was marked dead (a call on it failed with ErrShutdown) and was afterwards retired to the
// idle queue by the housekeeping goroutine is handed out again by getConn when the address has no active list,
// because that path dequeues without the alive check. The test builds exactly the state run() produces.
// Run through an overlay: cd /repo && go test -overlay ov.json -vet=off -run '^TestGovcReproDeadIdle$' .
package rpc

import "testing"

func TestGovcReproDeadIdle(t *testing.T) {
	dials := 0
	tr := &Transport{Network: "tcp", Codec: "json", Dial: func(network, address, codec string) (*Conn, error) {
		dials++
		return NewConn(), nil
	}}
	tr.ticker = 1 << 40 // keep the housekeeping goroutine quiet
	pc, err := tr.getConn("a:1")
	if err != nil || dials != 1 {
		t.Fatalf("setup: %v %d", err, dials)
	}
	// a call failed with ErrShutdown: checkPersistConnErr marks the connection dead
	pc.mu.Lock()
	pc.alive = false
	pc.mu.Unlock()
	// housekeeping tick: the stale connection is moved from the active list to the idle queue, the empty list is dropped
	tr.connsMu.Lock()
	cs := tr.conns["a:1"]
	cs.Delete(0)
	cq := newConnQueue(tr.MaxIdleConnsPerHost, "a:1")
	cq.Enqueue(pc)
	tr.idleConns["a:1"] = cq
	delete(tr.conns, "a:1")
	tr.connsMu.Unlock()
	// a call started afterwards must not get the dead connection
	pc2, err := tr.getConn("a:1")
	if err != nil {
		t.Fatal(err)
	}
	pc2.mu.Lock()
	alive := pc2.alive
	pc2.mu.Unlock()
	if pc2 == pc || !alive {
		t.Fatalf("getConn handed out a connection already known to be dead (dials=%d)", dials)
	}
}
