package govc

import (
	"fmt"
	"go/ast"
	"go/token"
	"go/types"
	"os"
	"path/filepath"
	"sort"
	"strings"

	"golang.org/x/tools/go/packages"
	"golang.org/x/tools/go/ssa"
	"golang.org/x/tools/go/ssa/ssautil"
)

// Program is the loaded SSA program plus lookup tables.
type Program struct {
	Prog    *ssa.Program
	Pkg     *ssa.Package // github.com/hslam/rpc
	PPkg    *packages.Package
	Fset    *token.FileSet
	Funcs   map[string]*ssa.Function // by spec name
	Spec    *Spec
	Dir     string
	AllPkgs map[string]*packages.Package
	// implementations of interface methods among repo types: method name -> funcs
	files  map[string]*ast.File
	src    map[string][]byte
	writes map[*ssa.Function]map[string]bool
}

const RepoPkgPath = "github.com/hslam/rpc"

// debugPkgs get DebugRef instructions (needed for local variable names in invariants).
var debugPkgs = map[string]bool{RepoPkgPath: true, "github.com/hslam/code": true}

func Load(dir string, specFile string) (*Program, error) {
	cfg := &packages.Config{
		Mode:       packages.LoadAllSyntax,
		Dir:        dir,
		BuildFlags: []string{"-tags=verif"},
		Env:        append(os.Environ(), "GOFLAGS=-mod=mod", "GOPROXY=off", "GOSUMDB=off", "GOTOOLCHAIN=local"),
	}
	initial, err := packages.Load(cfg, ".")
	if err != nil {
		return nil, err
	}
	if packages.PrintErrors(initial) > 0 {
		return nil, fmt.Errorf("package errors")
	}
	prog, pkgs := ssautil.AllPackages(initial, ssa.InstantiateGenerics)
	p := &Program{Prog: prog, Fset: initial[0].Fset, Funcs: map[string]*ssa.Function{}, Dir: dir, AllPkgs: map[string]*packages.Package{},
		files: map[string]*ast.File{}, src: map[string][]byte{}}
	packages.Visit(initial, nil, func(pp *packages.Package) { p.AllPkgs[pp.PkgPath] = pp })
	for _, sp := range prog.AllPackages() {
		if debugPkgs[sp.Pkg.Path()] {
			sp.SetDebugMode(true)
		}
	}
	prog.Build()
	p.Pkg = pkgs[0]
	p.PPkg = initial[0]
	if p.Pkg == nil {
		return nil, fmt.Errorf("no ssa package")
	}
	for fn := range ssautil.AllFunctions(prog) {
		if fn.Pkg == nil && fn.Parent() == nil {
			// wrappers, synthetic
			if fn.Synthetic != "" {
				continue
			}
		}
		pk := fn.Pkg
		if pk == nil && fn.Parent() != nil {
			pk = fn.Parent().Pkg
		}
		if pk == nil {
			continue
		}
		if fn.Synthetic != "" && !strings.HasPrefix(fn.Synthetic, "package init") {
			continue
		}
		path := pk.Pkg.Path()
		if path == RepoPkgPath {
			p.Funcs[fn.RelString(pk.Pkg)] = fn
		} else if debugPkgs[path] {
			p.Funcs[pk.Pkg.Name()+"."+fn.RelString(pk.Pkg)] = fn
		}
	}
	for path, pp := range p.AllPkgs {
		if debugPkgs[path] {
			for i, f := range pp.Syntax {
				name := pp.CompiledGoFiles[i]
				p.files[name] = f
			}
		}
	}
	if specFile == "" {
		specFile = filepath.Join(dir, "contracts_verif.go")
	}
	sp, err := ParseSpec(specFile)
	if err != nil {
		return nil, err
	}
	p.Spec = sp
	return p, nil
}

// FuncNames lists known function names (sorted).
func (p *Program) FuncNames() []string {
	var out []string
	for k := range p.Funcs {
		out = append(out, k)
	}
	sort.Strings(out)
	return out
}

// SpecName returns the spec-file name of an SSA function.
func (p *Program) SpecName(fn *ssa.Function) string {
	pk := fn.Pkg
	if pk == nil && fn.Parent() != nil {
		q := fn
		for q.Parent() != nil {
			q = q.Parent()
		}
		pk = q.Pkg
	}
	if pk == nil {
		return fn.String()
	}
	if pk.Pkg.Path() == RepoPkgPath {
		return fn.RelString(pk.Pkg)
	}
	return pk.Pkg.Name() + "." + fn.RelString(pk.Pkg)
}

// SourceText returns the source text of the smallest expression of the given kinds enclosing pos.
func (p *Program) SourceText(pos token.Pos, want func(ast.Node) bool) string {
	if !pos.IsValid() {
		return ""
	}
	position := p.Fset.Position(pos)
	f := p.files[position.Filename]
	if f == nil {
		return ""
	}
	var best ast.Node
	ast.Inspect(f, func(n ast.Node) bool {
		if n == nil {
			return false
		}
		if n.Pos() <= pos && pos < n.End() {
			if want(n) {
				best = n
			}
			return true
		}
		return false
	})
	if best == nil {
		return ""
	}
	src, ok := p.src[position.Filename]
	if !ok {
		src, _ = os.ReadFile(position.Filename)
		p.src[position.Filename] = src
	}
	s, e := p.Fset.Position(best.Pos()).Offset, p.Fset.Position(best.End()).Offset
	if s < 0 || e > len(src) || s > e {
		return ""
	}
	txt := string(src[s:e])
	txt = strings.Join(strings.Fields(txt), " ")
	if len(txt) > 80 {
		txt = txt[:80]
	}
	return txt
}

// LookupType finds a named type of the repo package by name.
func (p *Program) LookupType(name string) types.Type {
	if o := p.Pkg.Pkg.Scope().Lookup(name); o != nil {
		return o.Type()
	}
	// types declared inside a function (e.g. ServerContext in (*Server).listen)
	if p.PPkg != nil && p.PPkg.TypesInfo != nil {
		for id, o := range p.PPkg.TypesInfo.Defs {
			if tn, ok := o.(*types.TypeName); ok && id.Name == name && tn.Parent() != p.Pkg.Pkg.Scope() {
				return tn.Type()
			}
		}
	}
	return nil
}
