package govc

import (
	"fmt"
	"go/constant"
	"go/token"
	"go/types"
	"strings"

	"golang.org/x/tools/go/ssa"
)

var sentinelErrors = map[string]bool{
	"github.com/hslam/rpc.ErrShutdown": true, "github.com/hslam/rpc.ErrDial": true, "github.com/hslam/rpc.ErrTimeout": true,
	"github.com/hslam/rpc.ErrStreamShutdown": true, "io.EOF": true, "io.ErrUnexpectedEOF": true,
	"github.com/hslam/rpc.ErrorGOGOPB": true, "github.com/hslam/rpc.ErrorCODE": true, "github.com/hslam/rpc.ErrorMSGP": true,
	"github.com/hslam/rpc.errTarget": true, "github.com/hslam/rpc.errTruncated": true, "github.com/hslam/funcs.ZeroValue": true,
}

func (x *Exec) typeTag(t types.Type) *Term {
	k := strings.ReplaceAll(types.TypeString(t, nil), "byte", "uint8")
	if id, ok := x.typeTags[k]; ok {
		return IntLit(id)
	}
	id := int64(len(x.typeTags) + 1)
	x.typeTags[k] = id
	x.tagTypes[id] = t
	return IntLit(id)
}

// sentinel returns the constant value of a package-level sentinel variable.
func (x *Exec) sentinel(g *ssa.Global) (Value, bool) {
	name := g.Pkg.Pkg.Path() + "." + g.Name()
	if !sentinelErrors[name] {
		return nil, false
	}
	if v, ok := x.globals[name]; ok {
		return v, true
	}
	x.VC.Assumptions["package-level sentinel variables (ErrShutdown, ErrDial, io.EOF, funcs.ZeroValue, ...) are never reassigned and are pairwise distinct"] = true
	elem := g.Type().(*types.Pointer).Elem()
	id := IntLit(int64(1 + len(x.globals))) // sentinel objects are ordinary pre-existing objects (refs 1..999)
	var v Value
	if _, ok := elem.Underlying().(*types.Interface); ok {
		v = IfaceV{Tag: x.typeTag(types.NewPointer(types.Typ[types.Invalid])), Val: id, Ty: elem}
		// all sentinel errors are *errors.errorString
		v = IfaceV{Tag: IntLit(999), Val: id, Ty: elem}
	} else if ok, s := isOpaque(elem); ok && s != nil {
		v = Scalar{T: IntLit(0), Ty: elem} // funcs.ZeroValue is the zero Value
	} else {
		return nil, false
	}
	x.globals[name] = v
	return v, true
}

func (x *Exec) constValue(c *ssa.Const) Value {
	t := c.Type()
	if c.Value == nil {
		return x.zeroValue(t)
	}
	switch u := t.Underlying().(type) {
	case *types.Basic:
		switch {
		case u.Info()&types.IsBoolean != 0:
			if constant.BoolVal(c.Value) {
				return Scalar{T: True, Ty: t}
			}
			return Scalar{T: False, Ty: t}
		case u.Info()&types.IsInteger != 0:
			s := sortOfBasic(u)
			var v uint64
			if i, ok := constant.Int64Val(c.Value); ok {
				v = uint64(i)
			} else if ui, ok := constant.Uint64Val(c.Value); ok {
				v = ui
			}
			return Scalar{T: BVLit(v, s.W), Ty: t}
		case u.Info()&types.IsFloat != 0:
			f, _ := constant.Float64Val(c.Value)
			return Scalar{T: RealLit(realText(f)), Ty: t}
		case u.Info()&types.IsString != 0:
			return x.stringLit(constant.StringVal(c.Value), t)
		}
	}
	return UnknownV{Ty: t}
}

func realText(f float64) string {
	s := fmt.Sprintf("%.10f", f)
	if f < 0 {
		return "(- " + s[1:] + ")"
	}
	return s
}

func (x *Exec) stringLit(s string, t types.Type) Value {
	if s == "" {
		return SliceV{Arr: IntLit(0), Off: BVLit(0, 64), Len: BVLit(0, 64), Ty: t, Str: true}
	}
	if v, ok := x.strLits[s]; ok {
		return v
	}
	// literal arrays live at negative-free reserved refs 2000000+k (below any watermark assumption is not needed: they are never allocated)
	arr := IntLit(int64(1000 + len(x.strLits))) // literal arrays: pre-existing objects 1000..1999
	v := SliceV{Arr: arr, Off: BVLit(0, 64), Len: BVLit(uint64(len(s)), 64), Ty: t, Str: true}
	x.strLits[s] = v
	return v
}

func (x *Exec) operandIn(env map[ssa.Value]Value, v ssa.Value, st *State) Value {
	switch c := v.(type) {
	case *ssa.Const:
		return x.constValue(c)
	case *ssa.Global:
		cell := "global:" + c.Pkg.Pkg.Path() + "." + c.Name()
		if x.globalObjs == nil {
			x.globalObjs = map[string]*ssa.Global{}
		}
		x.globalObjs[cell] = c
		return LocV{Kind: "global", Cell: cell, Ty: c.Type()}
	case *ssa.Function:
		return ClosureV{Fn: c, Ref: x.funcRef(c), Ty: c.Type()}
	case *ssa.Builtin:
		return UnknownV{Ty: c.Type()}
	}
	if val, ok := env[v]; ok && val != nil {
		return val
	}
	x.VC.Warnf("undefined SSA value %s (%T) in %s: havocked", v.Name(), v, x.TopName)
	return x.freshValue(v.Type(), "undef."+v.Name(), True, st)
}

func (x *Exec) funcRef(fn *ssa.Function) *Term {
	// stable positive id per function
	k := "func:" + fn.String()
	if id, ok := x.typeTags[k]; ok {
		return IntLit(2000 + id)
	}
	id := int64(len(x.typeTags) + 1)
	x.typeTags[k] = id
	return IntLit(2000 + id) // top-level function values: pre-existing objects 2000..2999
}

// ---------- loads and stores through pointers ----------

func (x *Exec) load(n *node, ptr Value, ty types.Type, pos token.Pos) Value {
	st := n.st
	switch p := ptr.(type) {
	case Scalar:
		// pointer to a heap struct: load whole struct by value
		if stt, ok := ty.Underlying().(*types.Struct); ok {
			x.nilCheck(n, p.T, pos, "*")
			if ok, s := isOpaque(ty); ok {
				if s == nil {
					return StructV{Ty: ty}
				}
			}
			sv := StructV{Ty: ty}
			for i := 0; i < stt.NumFields(); i++ {
				f := stt.Field(i)
				sv.F = append(sv.F, x.loadField(st, typeName(ty), f.Name(), f.Type(), p.T, n.guard))
			}
			return sv
		}
		// pointer to scalar stored as heap cell (boxed)
		x.nilCheck(n, p.T, pos, "*")
		return x.loadField(st, "Cell", typeName(ty), ty, p.T, n.guard)
	case LocV:
		switch p.Kind {
		case "box":
			x.nilCheck(n, p.Obj, pos, "*")
			return x.loadField(st, "Cell", typeName(ty), ty, p.Obj, n.guard)
		case "field":
			fname := fieldPathName(p.ST, p.Path)
			x.guardField(n, p.Outer, fname, p.Obj, pos, false)
			v := x.loadField(st, p.Outer, fname, ty, p.Obj, n.guard)
			x.applyObserve(n, p.Outer, fname, p.Obj, v)
			if x.P.Spec.Fields[p.Outer+"."+fname] == "nonnil" {
				// configuration field declared never nil once the object is in use (assumption, listed in the evidence)
				x.VC.Assumptions["field "+p.Outer+"."+fname+" is never nil on an object in use (set before the object is shared)"] = true
				switch vv := v.(type) {
				case IfaceV:
					x.VC.Assume(n.guard, Not(Eq(vv.Tag, IntLit(0))), "nonnil-field")
				case Scalar:
					if vv.T.S == IntS {
						x.VC.Assume(n.guard, Not(Eq(vv.T, IntLit(0))), "nonnil-field")
					}
				}
			}
			return v
		case "elem":
			x.guardElem(n, ty, p.Obj, pos, false)
			return x.loadElem(st, ty, p.Obj, p.Idx, n.guard)
		case "cell":
			if v, ok := st.Cells[p.Cell]; ok {
				if sl, ok := v.(SliceV); ok && !sl.Str && isString(ty) {
					// unsafe reinterpretation of a slice header as a string header
					x.VC.Assumptions["unsafe cast *(*string)(unsafe.Pointer(&b)): the string shares the backing array of b (hslam/code.DecodeString)"] = true
					return SliceV{Arr: sl.Arr, Off: sl.Off, Len: sl.Len, Ty: ty, Str: true}
				}
				return v
			}
			v := x.zeroValue(ty)
			return v
		case "global":
			if g, ok := x.globalObjs[p.Cell]; ok {
				if v, ok := x.sentinel(g); ok {
					return v
				}
			}
			if v, ok := st.Cells[p.Cell]; ok {
				return v
			}
			// unknown global: arbitrary but fixed initial value
			if v, ok := x.globals[p.Cell]; ok {
				return v
			}
			v := x.freshValue(ty, sanitize(p.Cell), True, nil)
			x.globals[p.Cell] = v
			return v
		}
	}
	x.VC.Warnf("load through unsupported pointer %T in %s: havocked", ptr, x.TopName)
	return x.freshValue(ty, "load", n.guard, st)
}

func (x *Exec) store(n *node, ptr Value, val Value, ty types.Type, pos token.Pos) {
	st := n.st
	switch p := ptr.(type) {
	case Scalar:
		if stt, ok := ty.Underlying().(*types.Struct); ok {
			x.nilCheck(n, p.T, pos, "*")
			if ok, _ := isOpaque(ty); ok {
				return
			}
			sv, ok := val.(StructV)
			if !ok {
				sv = x.freshValue(ty, "unk", n.guard, st).(StructV)
			}
			for i := 0; i < stt.NumFields(); i++ {
				f := stt.Field(i)
				x.guardField(n, typeName(ty), f.Name(), p.T, pos, true)
				x.storeField(st, typeName(ty), f.Name(), f.Type(), p.T, sv.F[i])
			}
			return
		}
		x.nilCheck(n, p.T, pos, "*")
		x.storeField(st, "Cell", typeName(ty), ty, p.T, val)
		return
	case LocV:
		switch p.Kind {
		case "box":
			x.nilCheck(n, p.Obj, pos, "*")
			x.storeField(st, "Cell", typeName(ty), ty, p.Obj, val)
			return
		case "field":
			if !x.storeField(st, p.Outer, fieldPathName(p.ST, p.Path), ty, p.Obj, val) {
				x.VC.Warnf("store of unsupported value %T into %s.%s: field havocked", val, p.Outer, fieldPathName(p.ST, p.Path))
				x.storeField(st, p.Outer, fieldPathName(p.ST, p.Path), ty, p.Obj, x.freshValue(ty, "unk", n.guard, st))
			}
			return
		case "elem":
			if !x.storeElem(st, ty, p.Obj, p.Idx, val) {
				x.storeElem(st, ty, p.Obj, p.Idx, x.freshValue(ty, "unk", n.guard, st))
			}
			return
		case "cell", "global":
			st.Cells[p.Cell] = val
			st.CellTy[p.Cell] = ty
			return
		}
	}
	x.VC.Warnf("store through unsupported pointer %T in %s: ignored (state may be stale)", ptr, x.TopName)
}

func (x *Exec) nilCheck(n *node, ref *Term, pos token.Pos, what string) {
	if ref.Op == "lit" && ref.Name != "0" {
		return
	}
	txt := x.srcExpr(pos, "selector", "star", "call", "index")
	if txt == "" {
		txt = what
	}
	x.Oblige("nil", txt, fmt.Sprint(pos), pos, n.guard, Not(Eq(ref, IntLit(0))), nil)
	// after the check the path continues only if non-nil
	x.VC.Assume(n.guard, Not(Eq(ref, IntLit(0))), "nonnil-after-check")
}

// ---------- instructions ----------

func (x *Exec) execInstr(fc *funcCtx, n *node, ins ssa.Instruction) {
	st := n.st
	env := n.env
	op := func(v ssa.Value) Value { return x.operandIn(env, v, st) }
	x.curPos = ins.Pos()
	x.curInstr = ins
	switch i := ins.(type) {
	case *ssa.DebugRef:
		if !i.IsAddr {
			if id, ok := i.Expr.(interface{ String() string }); ok {
				_ = id
			}
			if obj := i.Object(); obj != nil {
				if _, isVar := obj.(*types.Var); isVar {
					st.Vars[obj.Name()] = op(i.X)
				}
			}
		} else if obj := i.Object(); obj != nil {
			// address-taken local: remember the cell so contracts can read it
			if lv, ok := op(i.X).(LocV); ok && lv.Kind == "cell" {
				st.Vars["&"+obj.Name()] = lv
			}
		}
	case *ssa.Alloc:
		elem := i.Type().(*types.Pointer).Elem()
		if _, isStruct := elem.Underlying().(*types.Struct); isStruct {
			if ok, _ := isOpaque(elem); !ok {
				r := x.alloc(st, i.Comment)
				x.storeZeroStruct(n, elem, r)
				env[i] = Scalar{T: r, Ty: i.Type()}
				st.Ghost["fresh:"+r.String()] = True
				return
			}
		}
		if at, isArr := elem.Underlying().(*types.Array); isArr {
			// local array (typically the backing store of variadic arguments): a fresh heap array
			r := x.alloc(st, "array")
			for _, c := range shapeComps(at.Elem()) {
				x.objSet(st, elemKey(at.Elem())+c.Suffix, r, x.zeroArray(c.S))
			}
			env[i] = LocV{Kind: "array", Obj: r, Path: []int{int(at.Len())}, Ty: i.Type()}
			return
		}
		key := fmt.Sprintf("cell:%s.%s", fc.fn.Name(), i.Name())
		if n.iter > 0 {
			key += fmt.Sprintf("#%d", n.iter)
		}
		if x.depth > 0 {
			key += fmt.Sprintf("@%d", x.depth)
		}
		st.Cells[key] = x.zeroValue(elem)
		st.CellTy[key] = elem
		env[i] = LocV{Kind: "cell", Cell: key, Ty: i.Type()}
	case *ssa.UnOp:
		switch i.Op {
		case token.MUL:
			env[i] = x.load(n, op(i.X), i.Type(), i.Pos())
		case token.NOT:
			env[i] = Scalar{T: Not(x.boolOf(op(i.X))), Ty: i.Type()}
		case token.SUB:
			if s, ok := op(i.X).(Scalar); ok && s.T.S.Kind == "BV" {
				env[i] = Scalar{T: x.VC.Def(i.Name(), BVNeg(s.T)), Ty: i.Type()}
			} else if ok && s.T.S == RealS {
				env[i] = Scalar{T: IntBin("-", RealLit("0.0"), s.T), Ty: i.Type()}
			} else {
				env[i] = x.freshValue(i.Type(), i.Name(), n.guard, st)
			}
		case token.XOR:
			if s, ok := op(i.X).(Scalar); ok && s.T.S.Kind == "BV" {
				env[i] = Scalar{T: x.VC.Def(i.Name(), BVNot(s.T)), Ty: i.Type()}
			} else {
				env[i] = x.freshValue(i.Type(), i.Name(), n.guard, st)
			}
		case token.ARROW:
			env[i] = x.chanRecv(n, op(i.X), i)
		default:
			x.VC.Warnf("unsupported UnOp %s", i.Op)
			env[i] = x.freshValue(i.Type(), i.Name(), n.guard, st)
		}
	case *ssa.BinOp:
		env[i] = x.binop(n, i, op(i.X), op(i.Y))
	case *ssa.FieldAddr:
		env[i] = x.fieldAddr(n, op(i.X), i)
	case *ssa.Field:
		if sv, ok := op(i.X).(StructV); ok && i.Field < len(sv.F) {
			env[i] = sv.F[i.Field]
		} else {
			env[i] = x.freshValue(i.Type(), i.Name(), n.guard, st)
		}
	case *ssa.IndexAddr:
		env[i] = x.indexAddr(n, op(i.X), op(i.Index), i)
	case *ssa.Index:
		// string or array indexing
		if sl, ok := op(i.X).(SliceV); ok {
			idx := x.toIndex(op(i.Index), i.Index.Type())
			x.boundsCheck(n, idx, sl.Len, i.Index.Type(), i.Pos())
			env[i] = x.loadElem(st, types.Typ[types.Uint8], sl.Arr, x.VC.Def("idx", BVBin("bvadd", sl.Off, idx)), n.guard)
		} else {
			env[i] = x.freshValue(i.Type(), i.Name(), n.guard, st)
		}
	case *ssa.Store:
		x.atStore(fc, n, i, op(i.Addr))
		x.storeCheck(n, op(i.Addr), i.Pos())
		x.store(n, op(i.Addr), op(i.Val), i.Val.Type(), i.Pos())
	case *ssa.Slice:
		env[i] = x.sliceOp(n, i, op(i.X), i)
	case *ssa.Convert:
		env[i] = x.convert(n, op(i.X), i.X.Type(), i.Type(), i.Name())
	case *ssa.ChangeType:
		v := op(i.X)
		env[i] = retype(v, i.Type())
	case *ssa.ChangeInterface:
		v := op(i.X)
		if iv, ok := v.(IfaceV); ok {
			iv.Ty = i.Type()
			env[i] = iv
		} else {
			env[i] = v
		}
	case *ssa.MakeInterface:
		env[i] = x.makeInterface(n, op(i.X), i.X.Type(), i.Type())
	case *ssa.TypeAssert:
		env[i] = x.typeAssert(n, op(i.X), i)
	case *ssa.Extract:
		if tv, ok := op(i.Tuple).(TupleV); ok && i.Index < len(tv) {
			env[i] = tv[i.Index]
		} else {
			env[i] = x.freshValue(i.Type(), i.Name(), n.guard, st)
		}
	case *ssa.Call:
		env[i] = x.call(fc, n, i, &i.Call, i.Type())
	case *ssa.MakeSlice:
		env[i] = x.makeSlice(n, i, op(i.Len), op(i.Cap))
	case *ssa.MakeMap:
		r := x.alloc(st, "map")
		x.initMap(n, i.Type(), r)
		env[i] = Scalar{T: r, Ty: i.Type()}
	case *ssa.MakeChan:
		r := x.alloc(st, "chan")
		x.initChan(n, r, op(i.Size))
		env[i] = Scalar{T: r, Ty: i.Type()}
	case *ssa.MakeClosure:
		fnv := i.Fn.(*ssa.Function)
		var bs []Value
		for _, b := range i.Bindings {
			bs = append(bs, op(b))
		}
		r := x.alloc(st, "closure")
		env[i] = ClosureV{Fn: fnv, Bindings: bs, Ref: r, Ty: i.Type()}
	case *ssa.MapUpdate:
		x.atMapUpdate(fc, n, i, op(i.Value))
		x.mapUpdate(n, op(i.Map), op(i.Key), op(i.Value), i)
	case *ssa.Lookup:
		env[i] = x.lookup(n, op(i.X), op(i.Index), i)
	case *ssa.Range:
		env[i] = x.rangeInit(n, op(i.X), i)
	case *ssa.Next:
		env[i] = x.rangeNext(n, op(i.Iter), i)
	case *ssa.Return:
		var vals []Value
		for _, r := range i.Results {
			vals = append(vals, op(r))
		}
		fc.rets = append(fc.rets, retPoint{node: n, guard: n.guard, vals: vals, st: st})
	case *ssa.If, *ssa.Jump:
		// handled by caller
	case *ssa.Panic:
		txt := x.srcExpr(i.Pos(), "call")
		x.Oblige("panic", txt, fmt.Sprint(i.Pos()), i.Pos(), n.guard, False, nil)
		n.dead = true
	case *ssa.Defer:
		var args []Value
		for _, a := range i.Call.Args {
			args = append(args, op(a))
		}
		var recv Value
		if i.Call.IsInvoke() {
			recv = op(i.Call.Value)
		} else if _, isFn := i.Call.Value.(*ssa.Function); !isFn {
			recv = op(i.Call.Value)
		}
		st.Defers = append(st.Defers, deferred{call: i, args: append([]Value{recv, Scalar{T: n.guard}}, args...)})
	case *ssa.RunDefers:
		x.runDefers(fc, n)
	case *ssa.Go:
		x.spawn(fc, n, i, &i.Call)
	case *ssa.Send:
		x.chanSend(n, op(i.Chan), op(i.X), i)
	case *ssa.Select:
		env[i] = x.selectOp(n, i)
	default:
		x.VC.Warnf("unsupported instruction %T in %s: result havocked", ins, x.TopName)
		if v, ok := ins.(ssa.Value); ok {
			env[v] = x.freshValue(v.Type(), v.Name(), n.guard, st)
		}
	}
}

func retype(v Value, t types.Type) Value {
	switch vv := v.(type) {
	case Scalar:
		vv.Ty = t
		return vv
	case SliceV:
		vv.Ty = t
		return vv
	case IfaceV:
		vv.Ty = t
		return vv
	case StructV:
		vv.Ty = t
		return vv
	case ClosureV:
		vv.Ty = t
		return vv
	case LocV:
		vv.Ty = t
		return vv
	}
	return v
}

func (x *Exec) storeZeroStruct(n *node, ty types.Type, r *Term) {
	stt := ty.Underlying().(*types.Struct)
	for i := 0; i < stt.NumFields(); i++ {
		f := stt.Field(i)
		x.storeField(n.st, typeName(ty), f.Name(), f.Type(), r, x.zeroValue(f.Type()))
	}
}

func (x *Exec) fieldAddr(n *node, base Value, i *ssa.FieldAddr) Value {
	pt := i.X.Type().Underlying().(*types.Pointer)
	stt := pt.Elem().Underlying().(*types.Struct)
	fty := stt.Field(i.Field).Type()
	switch b := base.(type) {
	case Scalar:
		x.nilCheck(n, b.T, i.Pos(), "."+stt.Field(i.Field).Name())
		lv := LocV{Kind: "field", Obj: b.T, ST: stt, Path: []int{i.Field}, Ty: i.Type(), Outer: typeName(pt.Elem())}
		return x.maybeObjectPtr(lv, fty)
	case LocV:
		if b.Kind == "field" {
			lv := b
			lv.Path = append(append([]int{}, b.Path...), i.Field)
			lv.Ty = i.Type()
			return lv
		}
		if b.Kind == "cell" {
			// address of a field of a local struct cell: not modelled separately
			return LocV{Kind: "cell", Cell: b.Cell + "." + stt.Field(i.Field).Name(), Ty: i.Type()}
		}
	}
	x.VC.Warnf("FieldAddr on unsupported base %T in %s", base, x.TopName)
	return UnknownV{Ty: i.Type()}
}

func (x *Exec) maybeObjectPtr(lv LocV, fty types.Type) Value { return lv }

func (x *Exec) toIndex(v Value, t types.Type) *Term {
	s, ok := v.(Scalar)
	if !ok || s.T.S.Kind != "BV" {
		return x.VC.Fresh("unkidx", bv64)
	}
	if s.T.S.W == 64 {
		return s.T
	}
	if isSigned(t) {
		return SignExt(64-s.T.S.W, s.T)
	}
	return ZeroExt(64-s.T.S.W, s.T)
}

func (x *Exec) boundsCheck(n *node, idx, length *Term, idxTy types.Type, pos token.Pos) {
	txt := x.srcExpr(pos, "index")
	var goal *Term
	// 0 <= idx < len  : as unsigned compare since len >= 0 and < 2^63 (for signed idx negative becomes huge)
	goal = BVCmp("bvult", idx, length)
	x.Oblige("bounds", txt, fmt.Sprint(pos), pos, n.guard, goal, nil)
	x.VC.Assume(n.guard, goal, "in-bounds-after-check")
}

func (x *Exec) indexAddr(n *node, base Value, idx Value, i *ssa.IndexAddr) Value {
	switch b := base.(type) {
	case SliceV:
		ix := x.toIndex(idx, i.Index.Type())
		x.boundsCheck(n, ix, b.Len, i.Index.Type(), i.Pos())
		return LocV{Kind: "elem", Obj: b.Arr, Idx: x.VC.Def("idx", BVBin("bvadd", b.Off, ix)), Ty: i.Type()}
	case LocV:
		if b.Kind == "array" {
			ix := x.toIndex(idx, i.Index.Type())
			x.boundsCheck(n, ix, BVLit(uint64(b.Path[0]), 64), i.Index.Type(), i.Pos())
			return LocV{Kind: "elem", Obj: b.Obj, Idx: ix, Ty: i.Type()}
		}
	}
	x.VC.Warnf("IndexAddr on unsupported base %T in %s", base, x.TopName)
	return UnknownV{Ty: i.Type()}
}

func (x *Exec) storeCheck(n *node, ptr Value, pos token.Pos) {
	if lv, ok := ptr.(LocV); ok && lv.Kind == "field" {
		x.guardField(n, lv.Outer, fieldPathName(lv.ST, lv.Path), lv.Obj, pos, true)
	}
	if lv, ok := ptr.(LocV); ok && lv.Kind == "elem" {
		x.guardElem(n, lv.Ty.Underlying().(*types.Pointer).Elem(), lv.Obj, pos, true)
	}
}

// guardElem: element arrays declared as guarded (e.g. Elem<*persistConn>) need their lock.
func (x *Exec) guardElem(n *node, elem types.Type, arr *Term, pos token.Pos, write bool) {
	li := x.guardedBy(elemKey(elem))
	if li == nil {
		return
	}
	name := lockName(li)
	if n.st.Locks[name] || n.st.FreshObjs[arr] > 0 || x.holdsByContract(name) {
		return
	}
	x.Oblige("lockset", fmt.Sprintf("%s accessed without %s", elemKey(elem), name), fmt.Sprint(pos), pos, n.guard, False, li.Props)
}

func (x *Exec) sliceOp(n *node, i *ssa.Slice, base Value, ins *ssa.Slice) Value {
	st := n.st
	op := func(v ssa.Value) Value { return x.operandIn(n.env, v, st) }
	if lv, isArr := base.(LocV); isArr && lv.Kind == "array" {
		nn := BVLit(uint64(lv.Path[0]), 64)
		base = SliceV{Arr: lv.Obj, Off: BVLit(0, 64), Len: nn, Cap: nn, Ty: i.Type()}
	}
	b, ok := base.(SliceV)
	if !ok {
		// slicing a pointer to array etc.
		x.VC.Warnf("Slice of unsupported base %T in %s", base, x.TopName)
		return x.freshValue(i.Type(), i.Name(), n.guard, st)
	}
	lo := BVLit(0, 64)
	if i.Low != nil {
		lo = x.toIndex(op(i.Low), i.Low.Type())
	}
	hi := b.Len
	if i.High != nil {
		hi = x.toIndex(op(i.High), i.High.Type())
	}
	limit := b.Cap
	if b.Str {
		limit = b.Len
	}
	var mx *Term
	if i.Max != nil {
		mx = x.toIndex(op(i.Max), i.Max.Type())
	}
	txt := x.srcExpr(i.Pos(), "slice")
	// Go: 0 <= lo <= hi <= (max <=) cap ; indices are checked as signed ints (negative panics)
	zero := BVLit(0, 64)
	var goal *Term
	if mx != nil {
		goal = And(BVCmp("bvsle", zero, lo), BVCmp("bvsle", lo, hi), BVCmp("bvsle", hi, mx), BVCmp("bvsle", mx, limit))
	} else {
		goal = And(BVCmp("bvsle", zero, lo), BVCmp("bvsle", lo, hi), BVCmp("bvsle", hi, limit))
	}
	x.Oblige("slice", txt, fmt.Sprint(i.Pos()), i.Pos(), n.guard, goal, nil)
	x.VC.Assume(n.guard, goal, "slice-ok-after-check")
	r := SliceV{Arr: b.Arr, Ty: i.Type(), Str: b.Str}
	r.Off = x.VC.Def(i.Name()+".off", BVBin("bvadd", b.Off, lo))
	r.Len = x.VC.Def(i.Name()+".len", BVBin("bvsub", hi, lo))
	// derived facts (consequences of the definitions; stated to spare the solver the bit-level derivation)
	x.VC.Assume(n.guard, Eq(BVBin("bvadd", r.Off, r.Len), BVBin("bvadd", b.Off, hi)), "slice-end")
	x.VC.Assume(n.guard, And(BVCmp("bvule", b.Off, r.Off), BVCmp("bvule", r.Len, limit), BVCmp("bvsle", BVLit(0, 64), r.Len)), "slice-range")
	if !b.Str {
		if mx != nil {
			r.Cap = x.VC.Def(i.Name()+".cap", BVBin("bvsub", mx, lo))
		} else {
			r.Cap = x.VC.Def(i.Name()+".cap", BVBin("bvsub", b.Cap, lo))
		}
	}
	return r
}

func (x *Exec) makeSlice(n *node, i *ssa.MakeSlice, lenv, capv Value) Value {
	st := n.st
	ln := x.toIndex(lenv, i.Len.Type())
	cp := x.toIndex(capv, i.Cap.Type())
	txt := x.srcExpr(i.Pos(), "call")
	zero := BVLit(0, 64)
	goal := And(BVCmp("bvsle", zero, ln), BVCmp("bvsle", ln, cp))
	x.Oblige("makeslice", txt, fmt.Sprint(i.Pos()), i.Pos(), n.guard, goal, nil)
	x.VC.Assume(n.guard, goal, "makeslice-ok")
	// allocation of more than 2^47 elements cannot succeed (assumption: treated as unreachable)
	x.VC.Assume(n.guard, BVCmp("bvsle", cp, lim47), "alloc-size")
	x.VC.Assumptions["make([]T, n) with n > 2^47 does not return (out of memory); such paths are not explored"] = true
	r := x.alloc(st, "slice")
	elem := i.Type().Underlying().(*types.Slice).Elem()
	// zero contents
	for _, c := range shapeComps(elem) {
		x.objSet(st, elemKey(elem)+c.Suffix, r, x.zeroArray(c.S))
	}
	return SliceV{Arr: r, Off: zero, Len: ln, Cap: cp, Ty: i.Type()}
}

func (x *Exec) zeroArray(elem *Sort) *Term {
	s := Arr(bv64, elem)
	return mk("(as const "+s.String()+")", s, zeroTerm(elem))
}

// ---------- arithmetic ----------

func (x *Exec) binop(n *node, i *ssa.BinOp, a, b Value) Value {
	st := n.st
	ty := i.Type()
	as, aok := a.(Scalar)
	bs, bok := b.(Scalar)
	name := i.Name()
	if aok && bok && as.T.S.Kind == "BV" && bs.T.S.Kind == "BV" {
		signed := isSigned(i.X.Type())
		w := as.T.S.W
		// shifts: count may have a different width
		if i.Op == token.SHL || i.Op == token.SHR {
			cnt := bs.T
			if cnt.S.W < w {
				cnt = ZeroExt(w-cnt.S.W, cnt)
			} else if cnt.S.W > w {
				// large count: if any high bit set, result 0 (or sign fill)
				hi := Extract(cnt.S.W-1, w, cnt)
				low := Extract(w-1, 0, cnt)
				cnt = Ite(Eq(hi, BVLit(0, cnt.S.W-w)), low, BVLit(uint64(w), w))
			}
			var r *Term
			if i.Op == token.SHL {
				r = BVBin("bvshl", as.T, cnt)
			} else if signed {
				r = BVBin("bvashr", as.T, cnt)
			} else {
				r = BVBin("bvlshr", as.T, cnt)
			}
			return Scalar{T: x.VC.Def(name, r), Ty: ty}
		}
		if bs.T.S.W != w {
			x.VC.Warnf("binop width mismatch in %s", x.TopName)
			return x.freshValue(ty, name, n.guard, st)
		}
		var r *Term
		switch i.Op {
		case token.ADD:
			r = BVBin("bvadd", as.T, bs.T)
		case token.SUB:
			r = BVBin("bvsub", as.T, bs.T)
		case token.MUL:
			r = BVBin("bvmul", as.T, bs.T)
		case token.QUO, token.REM:
			txt := x.srcExpr(i.Pos(), "binary")
			x.Oblige("div", txt, fmt.Sprint(i.Pos()), i.Pos(), n.guard, Not(Eq(bs.T, BVLit(0, w))), nil)
			x.VC.Assume(n.guard, Not(Eq(bs.T, BVLit(0, w))), "divisor-nonzero")
			opn := map[bool]map[token.Token]string{true: {token.QUO: "bvsdiv", token.REM: "bvsrem"}, false: {token.QUO: "bvudiv", token.REM: "bvurem"}}[signed][i.Op]
			r = BVBin(opn, as.T, bs.T)
		case token.AND:
			r = BVBin("bvand", as.T, bs.T)
		case token.OR:
			r = BVBin("bvor", as.T, bs.T)
		case token.XOR:
			r = BVBin("bvxor", as.T, bs.T)
		case token.AND_NOT:
			r = BVBin("bvand", as.T, BVNot(bs.T))
		case token.EQL:
			r = Eq(as.T, bs.T)
		case token.NEQ:
			r = Not(Eq(as.T, bs.T))
		case token.LSS:
			r = BVCmp(pick(signed, "bvslt", "bvult"), as.T, bs.T)
		case token.LEQ:
			r = BVCmp(pick(signed, "bvsle", "bvule"), as.T, bs.T)
		case token.GTR:
			r = BVCmp(pick(signed, "bvsgt", "bvugt"), as.T, bs.T)
		case token.GEQ:
			r = BVCmp(pick(signed, "bvsge", "bvuge"), as.T, bs.T)
		}
		if r != nil {
			return Scalar{T: x.VC.Def(name, r), Ty: ty}
		}
	}
	if aok && bok && as.T.S == BoolS && bs.T.S == BoolS {
		switch i.Op {
		case token.EQL:
			return Scalar{T: Eq(as.T, bs.T), Ty: ty}
		case token.NEQ:
			return Scalar{T: Not(Eq(as.T, bs.T)), Ty: ty}
		case token.AND, token.LAND:
			return Scalar{T: And(as.T, bs.T), Ty: ty}
		case token.OR, token.LOR:
			return Scalar{T: Or(as.T, bs.T), Ty: ty}
		}
	}
	if aok && bok && as.T.S == IntS && bs.T.S == IntS {
		switch i.Op {
		case token.EQL:
			return Scalar{T: Eq(as.T, bs.T), Ty: ty}
		case token.NEQ:
			return Scalar{T: Not(Eq(as.T, bs.T)), Ty: ty}
		}
	}
	if aok && bok && as.T.S == RealS && bs.T.S == RealS {
		var r *Term
		switch i.Op {
		case token.ADD:
			r = IntBin("+", as.T, bs.T)
		case token.SUB:
			r = IntBin("-", as.T, bs.T)
		case token.MUL:
			r = IntBin("*", as.T, bs.T)
		case token.QUO:
			r = IntBin("/", as.T, bs.T)
		case token.LSS:
			r = IntCmp("<", as.T, bs.T)
		case token.LEQ:
			r = IntCmp("<=", as.T, bs.T)
		case token.GTR:
			r = IntCmp(">", as.T, bs.T)
		case token.GEQ:
			r = IntCmp(">=", as.T, bs.T)
		case token.EQL:
			r = Eq(as.T, bs.T)
		case token.NEQ:
			r = Not(Eq(as.T, bs.T))
		}
		if r != nil {
			x.VC.Assumptions["float64 arithmetic is treated as arithmetic over the reals (no rounding)"] = true
			return Scalar{T: x.VC.Def(name, r), Ty: ty}
		}
	}
	// closures / funcs compared with nil
	if ac, ok := a.(ClosureV); ok {
		as, aok = Scalar{T: ac.Ref, Ty: ac.Ty}, true
		if bok {
			return x.binopRef(i, as, bs)
		}
	}
	if bc, ok := b.(ClosureV); ok && aok {
		return x.binopRef(i, as, Scalar{T: bc.Ref, Ty: bc.Ty})
	}
	// interface comparisons
	ai, aiok := a.(IfaceV)
	bi, biok := b.(IfaceV)
	if aiok && biok {
		eq := And(Eq(ai.Tag, bi.Tag), Eq(ai.Val, bi.Val))
		switch i.Op {
		case token.EQL:
			return Scalar{T: x.VC.Def(name, eq), Ty: ty}
		case token.NEQ:
			return Scalar{T: x.VC.Def(name, Not(eq)), Ty: ty}
		}
	}
	// strings
	asl, aslok := a.(SliceV)
	bsl, bslok := b.(SliceV)
	if aslok && bslok && asl.Str && bsl.Str {
		switch i.Op {
		case token.EQL, token.NEQ:
			eq := x.strEq(n, asl, bsl)
			if i.Op == token.NEQ {
				eq = Not(eq)
			}
			return Scalar{T: x.VC.Def(name, eq), Ty: ty}
		case token.ADD:
			return x.strConcat(n, asl, bsl, ty)
		}
	}
	x.VC.Warnf("unsupported BinOp %s on %T,%T in %s: havocked", i.Op, a, b, x.TopName)
	return x.freshValue(ty, name, n.guard, st)
}

func (x *Exec) binopRef(i *ssa.BinOp, a, b Scalar) Value {
	switch i.Op {
	case token.EQL:
		return Scalar{T: Eq(a.T, b.T), Ty: i.Type()}
	case token.NEQ:
		return Scalar{T: Not(Eq(a.T, b.T)), Ty: i.Type()}
	}
	return UnknownV{Ty: i.Type()}
}

func pick(c bool, a, b string) string {
	if c {
		return a
	}
	return b
}

// sid maps a string value to an abstract identity (content equality abstraction).
func (x *Exec) sid(s SliceV) *Term {
	if s.Arr.Op == "lit" && s.Arr.Name == "0" {
		return IntLit(0)
	}
	t := x.VC.UF("sid", IntS, s.Arr, s.Off, s.Len)
	if x.sidSeen == nil {
		x.sidSeen = map[*Term]bool{}
	}
	if !x.sidSeen[t] {
		x.sidSeen[t] = true
		// the empty string has identity 0 and is the only one that has it; identities are non-negative
		x.VC.Assume(True, And(Eq(Eq(t, IntLit(0)), Eq(s.Len, BVLit(0, 64))), IntCmp(">=", t, IntLit(0))), "sid-empty")
	}
	return t
}

// strEq: equality of strings. Sound abstraction: equal (arr,off,len) => equal; len differs => not equal;
// otherwise decided by the uninterpreted content identity sid.
func (x *Exec) strEq(n *node, a, b SliceV) *Term {
	zero := BVLit(0, 64)
	if la, ok := a.Len.BVVal(); ok && la == 0 {
		return Eq(b.Len, zero)
	}
	if lb, ok := b.Len.BVVal(); ok && lb == 0 {
		return Eq(a.Len, zero)
	}
	sa, sb := x.sid(a), x.sid(b)
	x.VC.Assume(True, Implies(Eq(sa, sb), Eq(a.Len, b.Len)), "sid-len")
	x.VC.Assume(True, Eq(Eq(sa, IntLit(0)), Eq(a.Len, zero)), "sid-empty")
	x.VC.Assume(True, Eq(Eq(sb, IntLit(0)), Eq(b.Len, zero)), "sid-empty")
	// distinct literals have distinct ids
	x.assumeLitSids()
	return Eq(sa, sb)
}

func (x *Exec) assumeLitSids() {
	// literal k has sid -k-1... we simply state pairwise distinctness lazily
	var ids []*Term
	for _, v := range x.strLits {
		ids = append(ids, x.sid(v))
	}
	if len(ids) > 1 {
		x.VC.Assume(True, mk("distinct", BoolS, ids...), "sid-literals-distinct")
	}
}

func (x *Exec) strConcat(n *node, a, b SliceV, ty types.Type) Value {
	st := n.st
	r := x.alloc(st, "concat")
	ln := x.VC.Def("concat.len", BVBin("bvadd", a.Len, b.Len))
	res := SliceV{Arr: r, Off: BVLit(0, 64), Len: ln, Ty: ty, Str: true}
	// contents: copy facts
	key := elemKey(types.Typ[types.Uint8])
	bs := Arr(bv64, BV(8))
	na := x.VC.Fresh("concat.bytes", bs)
	k := x.VC.Fresh("k", bv64)
	srcA := Select(x.objGet(st, key, bs, a.Arr), BVBin("bvadd", a.Off, k))
	srcB := Select(x.objGet(st, key, bs, b.Arr), BVBin("bvadd", b.Off, BVBin("bvsub", k, a.Len)))
	body := Eq(Select(na, k), Ite(BVCmp("bvult", k, a.Len), srcA, Ite(BVCmp("bvult", k, ln), srcB, BVLit(0, 8))))
	x.VC.AssumeForall([]*Term{k}, n.guard, body, "concat")
	x.objSet(st, key, r, na)
	return res
}

func isPtrLike(t types.Type) bool {
	switch u := t.Underlying().(type) {
	case *types.Pointer:
		return true
	case *types.Basic:
		return u.Kind() == types.UnsafePointer
	}
	return false
}

func (x *Exec) convert(n *node, v Value, from, to types.Type, name string) Value {
	st := n.st
	if isPtrLike(from) && isPtrLike(to) {
		return retype(v, to)
	}
	if s, ok := v.(Scalar); ok {
		ts := scalarSort(to)
		if ts == nil {
			// integer -> string etc.
			return x.freshValue(to, name, n.guard, st)
		}
		switch {
		case s.T.S.Kind == "BV" && ts.Kind == "BV":
			var r *Term
			switch {
			case ts.W == s.T.S.W:
				r = s.T
			case ts.W < s.T.S.W:
				r = Extract(ts.W-1, 0, s.T)
			case isSigned(from):
				r = SignExt(ts.W-s.T.S.W, s.T)
			default:
				r = ZeroExt(ts.W-s.T.S.W, s.T)
			}
			return Scalar{T: x.VC.Def(name, r), Ty: to}
		case s.T.S.Kind == "BV" && ts == RealS:
			x.VC.Assumptions["float64 arithmetic is treated as arithmetic over the reals (no rounding)"] = true
			r := x.bvToReal(s.T, isSigned(from))
			return Scalar{T: x.VC.Def(name, r), Ty: to}
		case s.T.S == RealS && ts.Kind == "BV":
			// truncation toward zero: result r with |r| <= |x| < |r|+1 and same sign
			x.VC.Assumptions["float64 arithmetic is treated as arithmetic over the reals (no rounding)"] = true
			r := x.VC.Fresh(name, ts)
			rr := x.bvToReal(r, isSigned(to))
			pos := And(IntCmp("<=", rr, s.T), IntCmp("<", s.T, IntBin("+", rr, RealLit("1.0"))))
			neg := And(IntCmp(">=", rr, s.T), IntCmp(">", s.T, IntBin("-", rr, RealLit("1.0"))))
			x.VC.Assume(n.guard, Ite(IntCmp(">=", s.T, RealLit("0.0")), pos, neg), "float-trunc")
			return Scalar{T: r, Ty: to}
		case s.T.S == RealS && ts == RealS, s.T.S == IntS && ts == IntS:
			return Scalar{T: s.T, Ty: to}
		}
	}
	if sl, ok := v.(SliceV); ok {
		// string <-> []byte conversions allocate a copy
		_, toSlice := to.Underlying().(*types.Slice)
		if (sl.Str && toSlice) || (!sl.Str && isString(to)) {
			r := x.alloc(st, "conv")
			key := elemKey(types.Typ[types.Uint8])
			bs := Arr(bv64, BV(8))
			na := x.VC.Fresh("conv.bytes", bs)
			k := x.VC.Fresh("k", bv64)
			body := Eq(Select(na, k), Ite(BVCmp("bvult", k, sl.Len), Select(x.objGet(st, key, bs, sl.Arr), BVBin("bvadd", sl.Off, k)), BVLit(0, 8)))
			x.VC.AssumeForall([]*Term{k}, n.guard, body, "conv-copy")
			x.objSet(st, key, r, na)
			res := SliceV{Arr: r, Off: BVLit(0, 64), Len: sl.Len, Ty: to, Str: isString(to)}
			if !res.Str {
				res.Cap = sl.Len
			}
			return res
		}
		if sl.Str && isString(to) {
			sl.Ty = to
			return sl
		}
	}
	x.VC.Warnf("unsupported Convert %s -> %s in %s: havocked", from, to, x.TopName)
	return x.freshValue(to, name, n.guard, st)
}

// bvToReal converts a 64-bit vector to a Real via a fresh Int constrained bitwise... we use an
// uninterpreted injection with ordering axioms instantiated per use (sound: only monotonicity and sign are used).
func (x *Exec) bvToReal(t *Term, signed bool) *Term {
	n := mk("bv2nat", IntS, t)
	if signed {
		n = Ite(BVCmp("bvslt", t, BVLit(0, t.S.W)), IntBin("-", n, IntBig(pow2(t.S.W))), n)
	}
	return mk("to_real", RealS, n)
}

func (x *Exec) makeInterface(n *node, v Value, from, to types.Type) Value {
	tag := x.typeTag(from)
	switch vv := v.(type) {
	case Scalar:
		if vv.T.S == IntS {
			return IfaceV{Tag: tag, Val: vv.T, Ty: to, Box: v}
		}
	case ClosureV:
		return IfaceV{Tag: tag, Val: vv.Ref, Ty: to, Box: v}
	}
	// boxed non-pointer value: fresh box
	r := x.alloc(n.st, "box")
	return IfaceV{Tag: tag, Val: r, Ty: to, Box: v}
}

func (x *Exec) typeAssert(n *node, v Value, i *ssa.TypeAssert) Value {
	st := n.st
	iv, ok := v.(IfaceV)
	if !ok {
		if i.CommaOk {
			return TupleV{x.freshValue(i.AssertedType, i.Name(), n.guard, st), Scalar{T: x.VC.Fresh("ok", BoolS), Ty: types.Typ[types.Bool]}}
		}
		return x.freshValue(i.AssertedType, i.Name(), n.guard, st)
	}
	var okT *Term
	var res Value
	if _, isIface := i.AssertedType.Underlying().(*types.Interface); isIface {
		// interface-to-interface: succeeds iff dynamic type implements it; statically known for concrete tags
		okT = x.implementsTerm(iv, i.AssertedType)
		if types.Identical(i.X.Type(), i.AssertedType) {
			// x.(I) with I the static type of x (method value of an interface): only checks for nil
			okT = Not(Eq(iv.Tag, IntLit(0)))
		}
		res = IfaceV{Tag: iv.Tag, Val: iv.Val, Ty: i.AssertedType, Box: iv.Box}
	} else {
		tag := x.typeTag(i.AssertedType)
		okT = Eq(iv.Tag, tag)
		if iv.Box != nil && okT == True {
			res = iv.Box
		} else if scalarSort(i.AssertedType) == IntS {
			res = Scalar{T: iv.Val, Ty: i.AssertedType}
		} else {
			// boxed value: contents are a function of the box (so two unboxings agree)
			res = x.unbox(iv, i.AssertedType, n, st)
		}
	}
	if i.CommaOk {
		zero := x.zeroValue(i.AssertedType)
		okD := x.VC.Def(i.Name()+".ok", okT)
		return TupleV{x.mergeValues(okD, res, zero, i.Name()), Scalar{T: okD, Ty: types.Typ[types.Bool]}}
	}
	txt := x.srcExpr(i.Pos(), "typeassert")
	x.Oblige("typeassert", txt, fmt.Sprint(i.Pos()), i.Pos(), n.guard, okT, nil)
	x.VC.Assume(n.guard, okT, "typeassert-ok")
	return res
}

func (x *Exec) unbox(iv IfaceV, ty types.Type, n *node, st *State) Value {
	if iv.Box != nil {
		return iv.Box
	}
	v := fromComps(ty, func(suffix string, s *Sort) *Term {
		return x.VC.UF("unbox"+sanitize(typeName(ty)+suffix), s, iv.Val)
	})
	x.assumeTypeInv(v, n.guard, st)
	return v
}

// implementsTerm: whether the dynamic type of iv implements the interface type it.
func (x *Exec) implementsTerm(iv IfaceV, it types.Type) *Term {
	if id, ok := litInt(iv.Tag); ok {
		if id == 0 {
			return False
		}
		if t, ok := x.tagTypes[id]; ok {
			if types.Implements(t, it.Underlying().(*types.Interface)) {
				return True
			}
			return False
		}
	}
	// unknown dynamic type: uninterpreted predicate of the tag (stable across repeated asserts)
	return And(Not(Eq(iv.Tag, IntLit(0))), x.VC.UF("implements_"+sanitize(typeName(it)), BoolS, iv.Tag))
}

func litInt(t *Term) (int64, bool) {
	if t.Op == "lit" && t.S == IntS && !strings.HasPrefix(t.Name, "(") {
		var v int64
		fmt.Sscan(t.Name, &v)
		return v, true
	}
	return 0, false
}

// storeKey names the field a store instruction writes ("Call.Error"), "" if it is not a direct field store.
func storeKey(i *ssa.Store) string {
	fa, ok := i.Addr.(*ssa.FieldAddr)
	if !ok {
		return ""
	}
	pt, ok := fa.X.Type().Underlying().(*types.Pointer)
	if !ok {
		return ""
	}
	st, ok := pt.Elem().Underlying().(*types.Struct)
	if !ok {
		return ""
	}
	return typeName(pt.Elem()) + "." + st.Field(fa.Field).Name()
}

// atStore: ghost updates attached to a field store (`ghostat store Type.f#n: target = expr`, arg0 = the object),
// then the ownership obligation of token-owned fields (`field Type.f: owned <tok>`): only the holder of the
// object's token (or the creator of a still-private object, or anyone for library-internal objects) may write it.
func (x *Exec) atStore(fc *funcCtx, n *node, i *ssa.Store, ptr Value) {
	key := storeKey(i)
	if key == "" {
		return
	}
	lv, ok := ptr.(LocV)
	if !ok || lv.Kind != "field" {
		return
	}
	name := "store " + key
	if fc.top {
		ord := 0
		found := false
		for _, b := range fc.fn.Blocks {
			for _, bi := range b.Instrs {
				if s2, ok := bi.(*ssa.Store); ok && storeKey(s2) == key {
					ord++
					if bi == ssa.Instruction(i) {
						found = true
						break
					}
				}
			}
			if found {
				break
			}
		}
		for _, cl := range fc.clauses {
			if cl.Kind != "ghostat" || cl.Block != name || cl.Ord != ord {
				continue
			}
			env := x.localSpecEnv(n.st, n.guard, true)
			env.vars["arg0"] = Scalar{T: lv.Obj, Ty: types.NewPointer(x.P.LookupType(lv.Outer))}
			x.applyGhostSet(cl, env, n.st)
			x.reportSpecErrors(env, x.TopName, cl)
			fc.atcallSeen[cl] = true
		}
	}
	cls := x.P.Spec.Fields[key]
	if strings.HasPrefix(cls, "owned ") {
		tk := strings.TrimSpace(strings.TrimPrefix(cls, "owned "))
		if n.st.FreshObjs[lv.Obj] > 0 {
			return
		}
		cur := x.objGet(n.st, "ghost."+tk, IntS, lv.Obj)
		internal := x.objGet(n.st, "ghost.internal", BoolS, lv.Obj)
		x.Oblige("owned", fmt.Sprintf("write of %s needs the %s token of the object (%s)", key, tk, x.srcExpr(i.Pos(), "selector")), fmt.Sprint(i.Pos()), i.Pos(), n.guard, Or(Eq(cur, IntLit(2)), internal), x.P.Spec.FieldProps[key])
	}
}

// atMapUpdate: ghost updates attached to a map store (`ghostat mapupdate <map type>#n: target = expr`, arg0 = the
// stored value); n counts the stores into maps of that type in block order.
func (x *Exec) atMapUpdate(fc *funcCtx, n *node, i *ssa.MapUpdate, val Value) {
	if !fc.top {
		return
	}
	name := "mapupdate " + typeName(i.Map.Type())
	any := false
	for _, cl := range fc.clauses {
		if cl.Kind == "ghostat" && cl.Block == name {
			any = true
		}
	}
	if !any {
		return
	}
	ord := 0
	found := false
	for _, b := range fc.fn.Blocks {
		for _, bi := range b.Instrs {
			if m2, ok := bi.(*ssa.MapUpdate); ok && typeName(m2.Map.Type()) == typeName(i.Map.Type()) {
				ord++
				if bi == ssa.Instruction(i) {
					found = true
					break
				}
			}
		}
		if found {
			break
		}
	}
	for _, cl := range fc.clauses {
		if cl.Kind != "ghostat" || cl.Block != name || cl.Ord != ord {
			continue
		}
		env := x.localSpecEnv(n.st, n.guard, true)
		env.vars["arg0"] = val
		x.applyGhostSet(cl, env, n.st)
		x.reportSpecErrors(env, x.TopName, cl)
		fc.atcallSeen[cl] = true
	}
}
