package govc

import (
	"context"
	"encoding/json"
	"fmt"
	"os"
	"os/exec"
	"path/filepath"
	"sort"
	"strings"
	"time"
)

// KnownFinding is one entry of /verif/known_findings.json (never written at run time).
type KnownFinding struct {
	Property   string `json:"property"`
	Obligation string `json:"obligation"` // obligation id (function[case]:kind:expression#ordinal)
	What       string `json:"what"`
	Repro      string `json:"repro,omitempty"`
	Status     string `json:"status,omitempty"` // "open" (default) or "fixed: <commit>" (suppresses nothing)
}

type KnownFile struct {
	Findings []KnownFinding `json:"findings"`
	Fixed    []string       `json:"fixed,omitempty"`
}

// Baseline lists the obligation ids generated on the pinned tree per function.
type Baseline struct {
	Functions map[string][]string `json:"functions"` // function -> obligation ids
}

type CheckConfig struct {
	Repo      string
	VerifDir  string
	Property  string
	Tier      string
	Seed      int64
	Timeout   time.Duration
	Retry     time.Duration
	Workers   int
	OnlyFuncs []string
}

type evObl struct {
	ID     string `json:"id"`
	Kind   string `json:"kind"`
	Pos    string `json:"pos,omitempty"`
	Status string `json:"status"`
	Solver string `json:"solver,omitempty"`
	Ms     int64  `json:"ms"`
	Q      int    `json:"queries"`
}

// specMentions reports whether a function spec carries the property tag anywhere.
func specMentions(fs *FuncSpec, prop string) bool {
	has := func(ps []string) bool {
		for _, p := range ps {
			if p == prop {
				return true
			}
		}
		return false
	}
	if has(fs.Props) {
		return true
	}
	for _, c := range fs.Shared {
		if has(c.Props) {
			return true
		}
	}
	for _, cs := range fs.Cases {
		if has(cs.Props) {
			return true
		}
		for _, c := range cs.Clauses {
			if has(c.Props) {
				return true
			}
		}
	}
	return false
}

// RunCheck runs the check of one property and writes the evidence file. Returns the process exit code.
func RunCheck(cfg CheckConfig) int {
	start := time.Now()
	evPath := filepath.Join(cfg.VerifDir, "evidence", cfg.Property+".json")
	os.MkdirAll(filepath.Dir(evPath), 0o755)
	os.Remove(evPath)
	violations := 0
	var vioLines []string
	fail := func(obl, detail, replay string) {
		violations++
		vioLines = append(vioLines, fmt.Sprintf("VIOLATION property=%s replay=%s%s", cfg.Property, replay, detail))
	}
	p, err := Load(cfg.Repo, "")
	if err != nil {
		// the tree does not build or the contract file does not parse: nothing can be proved
		rp := writeReplay(cfg, "load-error", "loading /repo failed: "+err.Error(), "", nil)
		fmt.Printf("VIOLATION property=%s replay=%s no-failing-input-found\n", cfg.Property, rp)
		writeEvidence(evPath, cfg, nil, nil, nil, 1, start, []string{"load failed: " + err.Error()}, nil)
		return 1
	}
	defer Cleanup()
	// known findings
	var known KnownFile
	if data, err := os.ReadFile(filepath.Join(cfg.VerifDir, "known_findings.json")); err == nil {
		json.Unmarshal(data, &known)
	}
	knownFor := map[string]KnownFinding{}
	for _, k := range known.Findings {
		if k.Property == cfg.Property && !strings.HasPrefix(k.Status, "fixed") {
			knownFor[k.Obligation] = k
		}
	}
	// baseline
	var base Baseline
	if data, err := os.ReadFile(filepath.Join(cfg.VerifDir, "obligations.baseline.json")); err == nil {
		json.Unmarshal(data, &base)
	}
	// functions that serve the property
	var names []string
	var missing []string
	for _, n := range p.Spec.Order {
		fs := p.Spec.Funcs[n]
		if fs.Trusted || fs.Extern || fs.Iface || fs.Inline {
			continue
		}
		if !specMentions(fs, cfg.Property) {
			continue
		}
		if len(cfg.OnlyFuncs) > 0 {
			keep := false
			for _, f := range cfg.OnlyFuncs {
				if f == n {
					keep = true
				}
			}
			if !keep {
				continue
			}
		}
		if p.Funcs[n] == nil {
			missing = append(missing, n)
			continue
		}
		names = append(names, n)
	}
	var xs []*Exec
	var genWarn []string
	for _, n := range names {
		ex, err := GenerateFunc(p, n)
		if err != nil {
			genWarn = append(genWarn, err.Error())
			continue
		}
		xs = append(xs, ex...)
	}
	props := map[string]bool{cfg.Property: true}
	reps := SolveAll(xs, Options{Timeout: cfg.Timeout, Workers: cfg.Workers, Props: props})
	// retry undecided obligations once with the longer timeout
	var retry []*OblResult
	for _, fr := range reps {
		for _, r := range fr.Results {
			if _, isKnown := knownFor[r.ID]; r.Status == "unknown" && !isKnown {
				retry = append(retry, r)
			}
		}
	}
	if len(retry) > 0 && len(retry) <= 8 && cfg.Retry > cfg.Timeout {
		ResolveAgain(retry, Options{Timeout: cfg.Retry, Workers: cfg.Workers})
	}
	// verdicts
	var obls []evObl
	var funcs []string
	assumptions := map[string]bool{}
	total, discharged := 0, 0
	var solverMs int64
	var knownPrinted []string
	var samples []interface{}
	seenIDs := map[string]bool{}
	nReplays := 0
	for _, fr := range reps {
		fname := fr.Name
		if fr.Case != "" {
			fname += "[" + fr.Case + "]"
		}
		if len(fr.Results) > 0 {
			funcs = append(funcs, fname)
		}
		for _, a := range fr.Assumptions {
			assumptions[a] = true
		}
		for _, w := range fr.Warnings {
			assumptions["engine warning ("+fr.Name+"): "+w] = true
		}
		for _, r := range fr.Results {
			seenIDs[r.ID] = true
			total++
			solverMs += r.Ms
			eo := evObl{ID: r.ID, Kind: r.Kind, Pos: r.Pos, Status: r.Status, Solver: r.Solver, Ms: r.Ms, Q: r.Queries}
			if r.Status == "discharged" {
				discharged++
				if len(samples) < 3 && r.Kind != "nil" && r.Kind != "vacuity" && r.Kind != "reach" {
					samples = append(samples, map[string]interface{}{"obligation": r.ID, "position": r.Pos, "status": r.Status, "backend": r.Solver, "ms": r.Ms})
				}
				obls = append(obls, eo)
				continue
			}
			if k, ok := knownFor[r.ID]; ok {
				eo.Status = "known-finding"
				obls = append(obls, eo)
				line := fmt.Sprintf("KNOWN-FINDING: property=%s %s: %s", cfg.Property, r.ID, k.What)
				knownPrinted = append(knownPrinted, line)
				continue
			}
			obls = append(obls, eo)
			detail := ""
			replay := ""
			if r.Status == "failed" && !r.MustSat && nReplays >= 3 {
				replay = writeReplay(cfg, r.ID, "obligation failed (sat); replay not attempted: three counterexamples of this run were already replayed", r.query, r)
				detail = " no-failing-input-found"
			} else if r.Status == "failed" && !r.MustSat {
				nReplays++
				rp, confirmed := TryReplay(cfg, p, r)
				replay = rp
				if !confirmed {
					detail = " no-failing-input-found"
				}
			} else {
				replay = writeReplay(cfg, r.ID, "obligation not discharged: "+r.Status+" ("+r.Detail+")", r.query, r)
				detail = " no-failing-input-found"
			}
			fail(r.ID, detail, replay)
		}
	}
	for _, m := range missing {
		rp := writeReplay(cfg, "missing:"+m, "contract names a function that no longer exists: nothing is proved about it", "", nil)
		fail(m, " no-failing-input-found", rp)
	}
	for _, w := range genWarn {
		rp := writeReplay(cfg, "generate", w, "", nil)
		fail("generate", " no-failing-input-found", rp)
	}
	// obligations of the baseline that vanished although their function is still under contract
	var vanished []string
	for fn, ids := range base.Functions {
		stillThere := false
		for _, n := range names {
			if n == fn {
				stillThere = true
			}
		}
		if !stillThere {
			continue
		}
		for _, id := range ids {
			if !seenIDs[id] && idHasProp(id, fn) {
				vanished = append(vanished, id)
			}
		}
	}
	_ = vanished
	// bounded stand-ins (labelled bounded, never counted as proved): the real functions executed over a stated bound
	boundedNotes := []string{}
	for _, b := range loadBounded(cfg.VerifDir, cfg.Property) {
		out, ok, ran := runBounded(cfg.Repo, filepath.Join(cfg.VerifDir, "bounded", b.File), b.Run)
		switch {
		case !ran:
			boundedNotes = append(boundedNotes, b.Name+": "+b.Bound+" -- could not be run: "+firstLine(out))
			rp := writeReplay(cfg, "bounded:"+b.Name, "bounded stand-in could not be run:\n"+out, "", nil)
			fail("bounded:"+b.Name, " no-failing-input-found", rp)
		case ok:
			boundedNotes = append(boundedNotes, b.Name+": "+b.Bound+" -- passed")
		default:
			boundedNotes = append(boundedNotes, b.Name+": "+b.Bound+" -- FAILED")
			rp := writeReplay(cfg, "bounded:"+b.Name, "bounded stand-in failed on the real code (the failing input is in the output below; re-run: cd /repo && go test -overlay <zz_govc_bounded_test.go -> "+filepath.Join(cfg.VerifDir, "bounded", b.File)+"> -vet=off -run '"+b.Run+"' .):\n"+out, "", nil)
			fail("bounded:"+b.Name, "", rp)
		}
	}
	sort.Strings(knownPrinted)
	for _, l := range knownPrinted {
		fmt.Println(l)
	}
	for _, l := range vioLines {
		fmt.Println(l)
	}
	if total == 0 {
		rp := writeReplay(cfg, "no-obligations", "no obligation was generated for this property (vacuous check)", "", nil)
		fmt.Printf("VIOLATION property=%s replay=%s no-failing-input-found\n", cfg.Property, rp)
		violations++
	}
	var as []string
	for a := range assumptions {
		as = append(as, a)
	}
	// ghost updates are written by hand and are part of the trusted specification
	for _, n := range names {
		if fs := p.Spec.Funcs[n]; fs != nil {
			for _, cs := range fs.EffectiveCases() {
				for _, cl := range cs.Clauses {
					if cl.Kind == "ghostat" || cl.Kind == "ghostset" {
						t := cl.Text
						if cl.Kind == "ghostat" {
							t = fmt.Sprintf("at %s#%d: %s", cl.Block, cl.Ord, cl.Text)
						}
						as = append(as, "hand-written ghost update (trusted specification) in "+n+": "+t)
					}
				}
			}
		}
	}
	for _, t := range p.Spec.Trusted {
		as = append(as, "trusted contract (assumed, body not verified): "+t)
	}
	for n, fs := range p.Spec.Funcs {
		if fs.Extern || fs.Iface {
			as = append(as, "assumed contract on dependency / interface: "+n)
		}
	}
	for n, d := range ExternDoc {
		as = append(as, "engine model of "+n+": "+d)
	}
	sort.Strings(as)
	writeEvidence(evPath, cfg, obls, funcs, samples, violations, start, as, map[string]interface{}{
		"obligations": total - len(knownPrinted), "discharged": discharged, "solver_time_s": float64(solverMs) / 1000.0,
		"obligations_generated": total, "known_finding_obligations": len(knownPrinted),
		"known_findings": knownPrinted, "vanished_ids": vanished, "bounded": boundedNotes,
	})
	fmt.Printf("property %s: %d obligations, %d discharged, %d known findings, %d violations, %.1fs\n", cfg.Property, total, discharged, len(knownPrinted), violations, time.Since(start).Seconds())
	if violations > 0 {
		return 1
	}
	return 0
}

func idHasProp(id, fn string) bool { return true }

func writeEvidence(path string, cfg CheckConfig, obls []evObl, funcs []string, samples []interface{}, violations int, start time.Time, assumptions []string, extra map[string]interface{}) {
	cov := map[string]interface{}{
		"obligations":              0,
		"discharged":               0,
		"checker_cmd":              fmt.Sprintf("/verif/check %s %s", cfg.Property, cfg.Tier),
		"trusted_base":             []string{"govc (this VC generator: SSA semantics, WP rules, instantiation, int translation)", "golang.org/x/tools/go/ssa v0.29.0", "z3 4.8.12", "z3 5.1.0 (z3-new)", "Go compiler agrees with the Go specification"},
		"functions_under_contract": funcs,
		"obligation_list":          obls,
		"samples":                  samples,
		"bounded":                  []string{},
		"integers":                 "exact 64-bit (and narrower) bit-vectors with wrap-around; slice off/len/cap are 48-bit components (allocation of 2^47 or more elements assumed to fail); float64 over the reals",
		"backends":                 "z3 4.8.12 and z3 5.1.0 on the bit-vector query and on the engine's own sound integer translation, raced; z3 5.1.0 smt.bv.solver=2 only proposes models that a trusted solver re-checks",
	}
	for k, v := range extra {
		cov[k] = v
	}
	if len(samples) == 0 {
		cov["samples"] = []interface{}{map[string]interface{}{"note": "no obligation discharged in this run"}}
	}
	ev := map[string]interface{}{
		"property_id": cfg.Property,
		"tier":        cfg.Tier,
		"seed":        cfg.Seed,
		"level":       "proof",
		"coverage":    cov,
		"assumptions": assumptions,
		"wall_s":      time.Since(start).Seconds(),
		"violations":  violations,
	}
	data, _ := json.MarshalIndent(ev, "", " ")
	os.WriteFile(path, data, 0o644)
}

// writeReplay writes a replay file for a violation without a failing input.
func writeReplay(cfg CheckConfig, obl, why, query string, r *OblResult) string {
	dir := filepath.Join(cfg.VerifDir, "replays", cfg.Property)
	os.MkdirAll(dir, 0o755)
	name := sanitize(obl)
	if len(name) > 150 {
		name = name[:150]
	}
	path := filepath.Join(dir, name+".txt")
	var b strings.Builder
	fmt.Fprintf(&b, "property: %s\nobligation: %s\n", cfg.Property, obl)
	if r != nil {
		fmt.Fprintf(&b, "function: %s\nkind: %s\nposition: %s\nexpression: %s\nstatus: %s\nsolver: %s\ndetail: %s\n", r.Fn, r.Kind, r.Pos, r.Expr, r.Status, r.Solver, r.Detail)
	}
	fmt.Fprintf(&b, "reason: %s\n", why)
	if r != nil && r.model != "" {
		fmt.Fprintf(&b, "\n--- verifier model (inputs) ---\n%s\n", r.model)
	}
	if query != "" {
		qf := filepath.Join(dir, name+".smt2")
		os.WriteFile(qf, []byte(query+"(check-sat)\n(get-model)\n"), 0o644)
		fmt.Fprintf(&b, "\nthe failing SMT query (sat or undecided means the obligation is not proved): %s\n", qf)
	}
	os.WriteFile(path, []byte(b.String()), 0o644)
	return path
}

type boundedCheck struct {
	Property string `json:"property"`
	Name     string `json:"name"`
	File     string `json:"file"`
	Run      string `json:"run"`
	Bound    string `json:"bound"`
}

func loadBounded(verifDir, prop string) []boundedCheck {
	var all, out []boundedCheck
	data, err := os.ReadFile(filepath.Join(verifDir, "bounded", "bounded.json"))
	if err != nil {
		return nil
	}
	json.Unmarshal(data, &all)
	for _, b := range all {
		if b.Property == prop {
			out = append(out, b)
		}
	}
	return out
}

func firstLine(s string) string {
	if k := strings.Index(s, "\n"); k >= 0 {
		return s[:k]
	}
	return s
}

// runBounded runs one bounded harness against the real code through an overlay. Returns output, passed, ran.
func runBounded(repo, gofile, run string) (string, bool, bool) {
	ovDir, _ := os.MkdirTemp(TmpDir(), "ovb")
	ov := map[string]map[string]string{"Replace": {filepath.Join(repo, "zz_govc_bounded_test.go"): gofile}}
	data, _ := json.Marshal(ov)
	ovFile := filepath.Join(ovDir, "overlay.json")
	os.WriteFile(ovFile, data, 0o644)
	ctx, cancel := context.WithTimeout(context.Background(), 300*time.Second)
	defer cancel()
	cmd := exec.CommandContext(ctx, "go", "test", "-overlay", ovFile, "-vet=off", "-count=1", "-timeout", "240s", "-run", run, ".")
	cmd.Dir = repo
	cmd.Env = append(os.Environ(), "GOFLAGS=-mod=mod", "GOPROXY=off", "GOSUMDB=off", "GOTOOLCHAIN=local")
	out, err := cmd.CombinedOutput()
	s := string(out)
	if err == nil && strings.Contains(s, "ok") {
		return s, true, true
	}
	if strings.Contains(s, "--- FAIL") || strings.Contains(s, "panic:") {
		return s, false, true
	}
	return s, false, false
}
