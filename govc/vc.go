package govc

import (
	"fmt"
	"go/token"
	"sort"
	"strings"
)

// Fact is an entry of Γ: a definition, a guarded assumption, or a quantified fact.
type Fact struct {
	Def   *Term // if non-nil: the defined constant; Body is (= Def expr)
	Body  *Term
	Vars  []*Term // quantified variables (const placeholders); nil for ground facts
	Label string
}

// Obligation is one proof obligation: Γ[0:NFacts] ∧ Guard ⊢ Goal.
type Obligation struct {
	ID       string
	Fn       string
	Kind     string
	Expr     string
	Pos      token.Position
	Props    []string
	Guard    *Term
	Goal     *Term
	NFacts   int
	MustSat  bool // vacuity / reachability obligations: expected SAT
	Inputs   []NamedTerm
	vc       *VC
	Note     string
	CaseName string
}

type NamedTerm struct {
	Name string
	V    Value
}

// FuncDecl is a declared uninterpreted function.
type FuncDecl struct {
	Name string
	Args []*Sort
	Res  *Sort
}

// VC is the verification-condition context of one function-under-contract (one case).
type VC struct {
	Facts  []Fact
	Obls   []*Obligation
	funcs  map[string]*FuncDecl
	nameCt map[string]int
	defs   map[string]int // const name -> fact index of its definition
	Warn   []string
	warned map[string]bool
	Assumptions map[string]bool
}

func NewVC() *VC {
	return &VC{funcs: map[string]*FuncDecl{}, nameCt: map[string]int{}, defs: map[string]int{}, warned: map[string]bool{}, Assumptions: map[string]bool{}}
}

func (vc *VC) Warnf(format string, a ...interface{}) {
	s := fmt.Sprintf(format, a...)
	if !vc.warned[s] {
		vc.warned[s] = true
		vc.Warn = append(vc.Warn, s)
	}
}

func sanitize(s string) string {
	var b strings.Builder
	for _, r := range s {
		switch {
		case r >= 'a' && r <= 'z', r >= 'A' && r <= 'Z', r >= '0' && r <= '9', r == '_', r == '.', r == '$', r == '#', r == '!':
			b.WriteRune(r)
		default:
			b.WriteByte('_')
		}
	}
	return b.String()
}

// Fresh declares a fresh constant.
func (vc *VC) Fresh(hint string, s *Sort) *Term {
	hint = sanitize(hint)
	vc.nameCt[hint]++
	return Const(fmt.Sprintf("%s!%d", hint, vc.nameCt[hint]), s)
}

// Def names a term: introduces a constant with a defining equation (keeps terms small).
func (vc *VC) Def(hint string, t *Term) *Term {
	if t.Op == "const" || t.Op == "lit" {
		return t
	}
	c := vc.Fresh(hint, t.S)
	vc.defs[c.Name] = len(vc.Facts)
	vc.Facts = append(vc.Facts, Fact{Def: c, Body: Eq(c, t)})
	return c
}

// Assume adds a guarded ground assumption.
func (vc *VC) Assume(guard, f *Term, label string) {
	b := Implies(guard, f)
	if b == True {
		return
	}
	vc.Facts = append(vc.Facts, Fact{Body: b, Label: label})
}

// AssumeForall adds a quantified fact (instantiated engine-side).
func (vc *VC) AssumeForall(vars []*Term, guard, body *Term, label string) {
	vc.Facts = append(vc.Facts, Fact{Body: Implies(guard, body), Vars: vars, Label: label})
}

func (vc *VC) DeclFunc(name string, res *Sort, args ...*Sort) {
	if _, ok := vc.funcs[name]; !ok {
		vc.funcs[name] = &FuncDecl{Name: name, Args: args, Res: res}
	}
}

// UF applies a declared uninterpreted function.
func (vc *VC) UF(name string, res *Sort, args ...*Term) *Term {
	ss := make([]*Sort, len(args))
	for i, a := range args {
		ss[i] = a.S
	}
	vc.DeclFunc(name, res, ss...)
	return App(name, res, args...)
}

// ---- query construction ----

// Query is a ground SMT query: sat ⇔ the obligation fails.
type Query struct {
	Text     string
	NInst    int
	NAsserts int
}

type instCfg struct {
	rounds  int
	maxInst int
}

// BuildQuery builds the (instantiated, quantifier-free) query for an obligation.
func (vc *VC) BuildQuery(o *Obligation, extra []*Term) *Query {
	facts := vc.Facts[:o.NFacts]
	// 1. roots: goal, guard, all ground non-definition facts
	var roots []*Term
	neg := Not(o.Goal)
	if o.MustSat {
		neg = o.Goal
	}
	roots = append(roots, o.Guard, neg)
	roots = append(roots, extra...)
	var qfacts []*Fact
	for i := range facts {
		f := &facts[i]
		if f.Vars != nil {
			qfacts = append(qfacts, f)
		} else if f.Def == nil {
			roots = append(roots, f.Body)
		}
	}
	// 2. cone of influence over definitions (transitively)
	included := map[int]bool{}
	seen := map[*Term]bool{}
	var asserts []*Term
	var work []*Term
	work = append(work, roots...)
	asserts = append(asserts, roots...)
	pull := func(t *Term) {
		Walk(t, seen, func(x *Term) {
			if x.Op == "const" {
				if di, ok := vc.defs[x.Name]; ok && di < o.NFacts && !included[di] {
					included[di] = true
					work = append(work, facts[di].Body)
					asserts = append(asserts, facts[di].Body)
				}
			}
		})
	}
	for len(work) > 0 {
		t := work[len(work)-1]
		work = work[:len(work)-1]
		pull(t)
	}
	// 3. instantiate quantified facts over the index terms of the query
	ninst := 0
	done := map[string]bool{}
	for round := 0; round < 2; round++ {
		pool := collectIndexTerms(asserts)
		var newAsserts []*Term
		for _, f := range qfacts {
			cands := make([][]*Term, len(f.Vars))
			ok := true
			for vi, v := range f.Vars {
				cands[vi] = pool[v.S.String()]
				if len(cands[vi]) == 0 {
					ok = false
				}
			}
			if !ok {
				continue
			}
			total := 1
			for _, c := range cands {
				total *= len(c)
			}
			if total > 3000 {
				// too many: restrict each variable's candidates
				for vi := range cands {
					if len(cands[vi]) > 40 {
						cands[vi] = cands[vi][:40]
					}
				}
			}
			idx := make([]int, len(cands))
			for {
				m := map[string]*Term{}
				key := fmt.Sprintf("%p", f)
				for vi, v := range f.Vars {
					m[v.Name] = cands[vi][idx[vi]]
					key += "|" + cands[vi][idx[vi]].String()
				}
				if !done[key] {
					done[key] = true
					inst := Subst(f.Body, m, map[*Term]*Term{})
					if inst != True {
						newAsserts = append(newAsserts, inst)
						ninst++
					}
				}
				// next
				k := 0
				for k < len(idx) {
					idx[k]++
					if idx[k] < len(cands[k]) {
						break
					}
					idx[k] = 0
					k++
				}
				if k == len(idx) {
					break
				}
			}
		}
		if len(newAsserts) == 0 {
			break
		}
		for _, a := range newAsserts {
			asserts = append(asserts, a)
			work = append(work, a)
		}
		for len(work) > 0 {
			t := work[len(work)-1]
			work = work[:len(work)-1]
			pull(t)
		}
	}
	// 4. print
	return &Query{Text: vc.printQuery(asserts), NInst: ninst, NAsserts: len(asserts)}
}

// collectIndexTerms gathers, per sort, the ground terms used as select indices
// (and as arguments of uninterpreted functions).
func collectIndexTerms(asserts []*Term) map[string][]*Term {
	pool := map[string][]*Term{}
	have := map[string]bool{}
	seen := map[*Term]bool{}
	add := func(t *Term) {
		k := t.S.String() + "|" + t.String()
		if !have[k] {
			have[k] = true
			pool[t.S.String()] = append(pool[t.S.String()], t)
		}
	}
	for _, a := range asserts {
		Walk(a, seen, func(x *Term) {
			if x.Op == "select" {
				add(x.Args[1])
			} else if x.Op == "store" {
				add(x.Args[1])
			}
		})
	}
	for k := range pool {
		sort.Slice(pool[k], func(i, j int) bool { return len(pool[k][i].String()) < len(pool[k][j].String()) })
	}
	return pool
}

func (vc *VC) printQuery(asserts []*Term) string {
	var b strings.Builder
	b.WriteString("(set-option :produce-models true)\n(set-logic ALL)\n")
	consts := map[string]*Sort{}
	seen := map[*Term]bool{}
	usedF := map[string]bool{}
	for _, a := range asserts {
		Walk(a, seen, func(x *Term) {
			if x.Op == "const" {
				consts[x.Name] = x.S
			} else if _, ok := vc.funcs[x.Op]; ok {
				usedF[x.Op] = true
			}
		})
	}
	for _, k := range sortedKeys(consts) {
		fmt.Fprintf(&b, "(declare-fun |%s| () %s)\n", k, consts[k])
	}
	for _, k := range sortedKeys(usedF) {
		f := vc.funcs[k]
		var as []string
		for _, s := range f.Args {
			as = append(as, s.String())
		}
		fmt.Fprintf(&b, "(declare-fun %s (%s) %s)\n", f.Name, strings.Join(as, " "), f.Res)
	}
	for _, a := range asserts {
		if a == True {
			continue
		}
		b.WriteString("(assert ")
		writeTerm(&b, a)
		b.WriteString(")\n")
	}
	return b.String()
}

func writeTerm(b *strings.Builder, t *Term) {
	switch t.Op {
	case "const":
		b.WriteByte('|')
		b.WriteString(t.Name)
		b.WriteByte('|')
	case "lit":
		b.WriteString(t.Name)
	default:
		b.WriteByte('(')
		b.WriteString(t.Op)
		for _, a := range t.Args {
			b.WriteByte(' ')
			writeTerm(b, a)
		}
		b.WriteByte(')')
	}
}

// TermText prints a term in SMT-LIB syntax (with |quoted| symbols).
func TermText(t *Term) string {
	var b strings.Builder
	writeTerm(&b, t)
	return b.String()
}
