package govc

import (
	"os"
	"sync"
	"fmt"
	"go/token"
	"sort"
	"strings"
)

// Fact is an entry of Γ: a definition, a guarded assumption, or a quantified fact.
type Fact struct {
	Def   *Term // if non-nil: the defined constant; Body is (= Def expr)
	Tag   interface{} // DAG node under whose guard the fact was assumed (nil: unconditional)
	Body  *Term
	Vars  []*Term // quantified variables (const placeholders); nil for ground facts
	Trigs []trigger
	Label string
}

// Obligation is one proof obligation: Γ[0:NFacts] ∧ Guard ⊢ Goal.
type Obligation struct {
	ID       string
	Fn       string
	Kind     string
	Expr     string
	Pos      token.Position
	Props    []string
	Guard    *Term
	Goal     *Term
	NFacts   int
	MustSat  bool // vacuity / reachability obligations: expected SAT
	Inputs   []NamedTerm
	vc       *VC
	x        *Exec
	Tag      interface{}
	Note     string
	CaseName string
}

type NamedTerm struct {
	Name string
	V    Value
}

// FuncDecl is a declared uninterpreted function.
type FuncDecl struct {
	Name string
	Args []*Sort
	Res  *Sort
}

// VC is the verification-condition context of one function-under-contract (one case).
type VC struct {
	Facts  []Fact
	Obls   []*Obligation
	funcs  map[string]*FuncDecl
	nameCt map[string]int
	defs   map[string]int // const name -> fact index of its definition
	Warn   []string
	warned map[string]bool
	Assumptions map[string]bool
	Skolems []*Term
	CurTag  interface{}
	Ancestors func(tag interface{}) map[interface{}]bool
	symMu   sync.Mutex
	Broad   bool // instantiate driven by every select of the query (fallback)
	symMemo map[*Term]map[string]bool
	dsymMemo map[*Term]map[string]bool
}

func NewVC() *VC {
	return &VC{funcs: map[string]*FuncDecl{}, nameCt: map[string]int{}, defs: map[string]int{}, warned: map[string]bool{}, Assumptions: map[string]bool{}}
}

func (vc *VC) Warnf(format string, a ...interface{}) {
	s := fmt.Sprintf(format, a...)
	if !vc.warned[s] {
		vc.warned[s] = true
		vc.Warn = append(vc.Warn, s)
	}
}

func sanitize(s string) string {
	var b strings.Builder
	for _, r := range s {
		switch {
		case r >= 'a' && r <= 'z', r >= 'A' && r <= 'Z', r >= '0' && r <= '9', r == '_', r == '.', r == '$', r == '#', r == '!':
			b.WriteRune(r)
		default:
			b.WriteByte('_')
		}
	}
	return b.String()
}

// Fresh declares a fresh constant.
func (vc *VC) Fresh(hint string, s *Sort) *Term {
	hint = sanitize(hint)
	vc.nameCt[hint]++
	return Const(fmt.Sprintf("%s!%d", hint, vc.nameCt[hint]), s)
}

// Def names a term: introduces a constant with a defining equation (keeps terms small).
func (vc *VC) Def(hint string, t *Term) *Term {
	if t.Op == "const" || t.Op == "lit" {
		return t
	}
	c := vc.Fresh(hint, t.S)
	vc.defs[c.Name] = len(vc.Facts)
	vc.Facts = append(vc.Facts, Fact{Def: c, Body: Eq(c, t)})
	return c
}

// Assume adds a guarded ground assumption (conjunctions are split into separate facts).
func (vc *VC) Assume(guard, f *Term, label string) {
	if f.Op == "and" {
		for _, a := range f.Args {
			vc.Assume(guard, a, label)
		}
		return
	}
	if f.Op == "=>" && f.Args[1].Op == "and" {
		g2 := And(guard, f.Args[0])
		for _, a := range f.Args[1].Args {
			vc.Assume(g2, a, label)
		}
		return
	}
	b := Implies(guard, f)
	if b == True {
		return
	}
	fa := Fact{Body: b, Label: label}
	if guard != True {
		fa.Tag = vc.CurTag
	}
	vc.Facts = append(vc.Facts, fa)
}

// SplitGoal flattens a goal into conjuncts (hyps => atom), at most max pieces.
func SplitGoal(g *Term, max int) []*Term {
	var out []*Term
	var rec func(hyp, t *Term)
	rec = func(hyp, t *Term) {
		switch {
		case t.Op == "and":
			for _, a := range t.Args {
				rec(hyp, a)
			}
		case t.Op == "=>":
			rec(And(hyp, t.Args[0]), t.Args[1])
		default:
			out = append(out, Implies(hyp, t))
		}
	}
	rec(True, g)
	if len(out) > max || len(out) == 0 {
		return []*Term{g}
	}
	return out
}

// isElemArrayTerm: the term is (or operates on) an element array (indexed by 64-bit vectors), i.e. slice contents.
func isElemArrayTerm(x *Term) bool {
	if x.S.Kind == "Array" && (x.S.Idx.Kind == "BV" || (x.S.Elem.Kind == "Array" && x.S.Elem.Idx.Kind == "BV")) {
		return true
	}
	return false
}

func hasArrayOps(t *Term, seen map[*Term]bool) bool {
	found := false
	Walk(t, seen, func(x *Term) {
		if x.Op == "select" || x.Op == "store" || x.S.Kind == "Array" {
			found = true
		}
	})
	return found
}

// trigger: a select(arr, idx) subterm of a quantified fact whose index mentions the bound variable.
type trigger struct {
	arr, idx, base *Term
	plain        bool // idx is exactly the bound variable
}

// AssumeForall adds a quantified fact (instantiated engine-side).
func (vc *VC) AssumeForall(vars []*Term, guard, body *Term, label string) {
	f := Fact{Body: Implies(guard, body), Vars: vars, Label: label}
	if guard != True {
		f.Tag = vc.CurTag
	}
	if len(vars) == 1 {
		v := vars[0]
		seen := map[*Term]bool{}
		have := map[string]bool{}
		Walk(f.Body, seen, func(x *Term) {
			if x.Op != "select" || !x.Args[1].S.Eq(v.S) || v.S.Kind != "BV" {
				return
			}
			if !mentions(x.Args[1], v) || mentions(x.Args[0], v) {
				return
			}
			tr := trigger{arr: x.Args[0], idx: x.Args[1]}
			if x.Args[1] == v {
				tr.plain = true
			} else {
				// linear pattern base + v: base = idx[v := 0]; valid iff idx == base + v syntactically checkable by construction
				if !linearIn(x.Args[1], v) {
					return
				}
				tr.base = Subst(x.Args[1], map[string]*Term{v.Name: BVLit(0, v.S.W)}, map[*Term]*Term{})
			}
			k := fmt.Sprintf("%d|%d", tr.arr.id, tr.idx.id)
			if !have[k] {
				have[k] = true
				f.Trigs = append(f.Trigs, tr)
			}
		})
	}
	vc.Facts = append(vc.Facts, f)
}

func mentions(t, v *Term) bool {
	found := false
	Walk(t, map[*Term]bool{}, func(x *Term) {
		if x == v {
			found = true
		}
	})
	return found
}

// linearIn: t is a bvadd-tree in which v occurs exactly once, as a summand.
func linearIn(t, v *Term) bool {
	if t == v {
		return true
	}
	if t.Op != "bvadd" {
		return false
	}
	l, r := mentions(t.Args[0], v), mentions(t.Args[1], v)
	if l && !r {
		return linearIn(t.Args[0], v)
	}
	if r && !l {
		return linearIn(t.Args[1], v)
	}
	return false
}

func usedConsts(asserts []*Term) map[string]*Sort {
	out := map[string]*Sort{}
	seen := map[*Term]bool{}
	for _, a := range asserts {
		Consts(a, seen, out)
	}
	return out
}

func (vc *VC) DeclFunc(name string, res *Sort, args ...*Sort) {
	if _, ok := vc.funcs[name]; !ok {
		vc.funcs[name] = &FuncDecl{Name: name, Args: args, Res: res}
	}
}

// UF applies a declared uninterpreted function.
func (vc *VC) UF(name string, res *Sort, args ...*Term) *Term {
	ss := make([]*Sort, len(args))
	for i, a := range args {
		ss[i] = a.S
	}
	vc.DeclFunc(name, res, ss...)
	return App(name, res, args...)
}

// ---- query construction ----

// Query is a ground SMT query: sat ⇔ the obligation fails.
type Query struct {
	Text     string   // complete query text (header + asserts), without (check-sat)
	Header   string   // options, declarations, define-funs
	Asserts  []string // one "(assert ...)" body per entry (the formula text only)
	Scalars  []string // names of declared scalar constants (for model extraction)
	Alt      *Query   // sound integer translation (unsat there implies unsat here); nil if not translatable
	AltWhy   string
	NInst    int
	NAsserts int
}

// UseIntBlast enables the engine's own integer translation as an additional (sound) proof attempt.
var UseIntBlast = true

type instCfg struct {
	rounds  int
	maxInst int
}

// BuildQuery builds the (instantiated, quantifier-free) query for an obligation.
func (vc *VC) BuildQuery(o *Obligation, extra []*Term) *Query {
	return vc.BuildQueryFor(o, o.Goal, extra, false)
}

// ScalarGoal reports whether guard, goal and their definition cone are free of array operations.
func (vc *VC) ScalarGoal(o *Obligation, goal *Term) bool {
	seen := map[*Term]bool{}
	work := []*Term{o.Guard, goal}
	done := map[int]bool{}
	for len(work) > 0 {
		t := work[len(work)-1]
		work = work[:len(work)-1]
		arr := false
		Walk(t, seen, func(x *Term) {
			if isElemArrayTerm(x) {
				arr = true
			}
			if x.Op == "const" {
				if di, ok := vc.defs[x.Name]; ok && di < o.NFacts && !done[di] {
					done[di] = true
					work = append(work, vc.Facts[di].Body)
				}
			}
		})
		if arr {
			return false
		}
	}
	return true
}

// BuildQueryFor builds the query for one goal piece. light: drop every assumption that mentions arrays
// and all quantified facts (sound: fewer hypotheses; used as a fast first attempt for scalar goals).
func (vc *VC) BuildQueryFor(o *Obligation, goal *Term, extra []*Term, light bool) *Query {
	return vc.BuildQueryRel(o, goal, extra, light, 0)
}

func isVarOf(f *Fact, name string) bool {
	for _, v := range f.Vars {
		if v.Name == name {
			return true
		}
	}
	return false
}

// directSyms returns the constant and uninterpreted-function symbols occurring in a term (no definition expansion).
func (vc *VC) directSyms(t *Term) map[string]bool {
	vc.symMu.Lock()
	defer vc.symMu.Unlock()
	if vc.dsymMemo == nil {
		vc.dsymMemo = map[*Term]map[string]bool{}
	}
	if r, ok := vc.dsymMemo[t]; ok {
		return r
	}
	out := map[string]bool{}
	Walk(t, map[*Term]bool{}, func(x *Term) {
		if x.Op == "const" {
			out[x.Name] = true
		}
	})
	vc.dsymMemo[t] = out
	return out
}

// symsOf returns the constant symbols of a term with definitions expanded (memoised per VC).
func (vc *VC) symsOf(t *Term, limit int) map[string]bool {
	vc.symMu.Lock()
	defer vc.symMu.Unlock()
	if vc.symMemo == nil {
		vc.symMemo = map[*Term]map[string]bool{}
	}
	if r, ok := vc.symMemo[t]; ok {
		return r
	}
	out := map[string]bool{}
	seen := map[*Term]bool{}
	work := []*Term{t}
	for len(work) > 0 {
		c := work[len(work)-1]
		work = work[:len(work)-1]
		Walk(c, seen, func(x *Term) {
			if x.Op == "const" && !out[x.Name] {
				out[x.Name] = true
				if di, ok := vc.defs[x.Name]; ok {
					work = append(work, vc.Facts[di].Body)
				}
			}
		})
	}
	vc.symMemo[t] = out
	return out
}

// BuildQueryRel is BuildQueryFor with a relevance depth: depth > 0 keeps only ground assumptions within
// that many symbol-sharing hops of the goal and guard (dropping hypotheses is sound for validity).
func (vc *VC) BuildQueryRel(o *Obligation, goal *Term, extra []*Term, light bool, depth int) *Query {
	allDefs := false
	if depth >= 100 {
		allDefs = true
		depth -= 100
	}
	facts := vc.Facts[:o.NFacts]
	// SInE-style premise selection (depth > 0): a fact is triggered by its rarest symbols; starting from the
	// symbols of the goal and guard, triggered facts are added for `depth` rounds. Definitions are triggered by
	// the symbol they define. Unselected facts are dropped (sound: fewer hypotheses).
	var relevant map[int]bool
	tol := 2.0
	if depth >= 4 {
		tol = 4.0
	}
	var sineExtend func(ts []*Term)
	if depth > 0 && !o.MustSat {
		relevant = map[int]bool{}
		fsyms := make([]map[string]bool, len(facts))
		occ := map[string]int{}
		for i := range facts {
			fsyms[i] = vc.directSyms(facts[i].Body)
			for k := range fsyms[i] {
				occ[k]++
			}
		}
		trig := make([][]string, len(facts))
		for i := range facts {
			f := &facts[i]
			if f.Def != nil {
				trig[i] = []string{f.Def.Name}
				continue
			}
			min := 1 << 30
			for k := range fsyms[i] {
				if f.Vars != nil && isVarOf(f, k) {
					continue
				}
				if occ[k] < min {
					min = occ[k]
				}
			}
			for k := range fsyms[i] {
				if f.Vars != nil && isVarOf(f, k) {
					continue
				}
				if float64(occ[k]) <= tol*float64(min) {
					trig[i] = append(trig[i], k)
				}
			}
		}
		rel := map[string]bool{}
		for k := range vc.directSyms(goal) {
			rel[k] = true
		}
		for k := range vc.directSyms(o.Guard) {
			rel[k] = true
		}
		round := func() bool {
			add := map[string]bool{}
			changed := false
			for i := range facts {
				if relevant[i] {
					continue
				}
				hit := false
				for _, k := range trig[i] {
					if rel[k] {
						hit = true
						break
					}
				}
				if hit {
					relevant[i] = true
					changed = true
					for k := range fsyms[i] {
						add[k] = true
					}
				}
			}
			for k := range add {
				rel[k] = true
			}
			return changed
		}
		// definitions of relevant symbols are always unfolded, transitively (they do not count as a round)
		closeBool := func() {
			for changed := true; changed; {
				changed = false
				for i := range facts {
					f := &facts[i]
					if relevant[i] || f.Def == nil || !rel[f.Def.Name] || (f.Def.S != BoolS && !allDefs) {
						continue
					}
					relevant[i] = true
					changed = true
					for k := range fsyms[i] {
						rel[k] = true
					}
				}
			}
		}
		closeBool()
		for d := 0; d < depth; d++ {
			if !round() {
				break
			}
			closeBool()
		}
		sineExtend = func(ts []*Term) {
			for _, t := range ts {
				for k := range vc.directSyms(t) {
					rel[k] = true
				}
			}
			round()
		}
	}
	// 1. roots: goal, guard, all ground non-definition facts
	var roots []*Term
	neg := Not(goal)
	if o.MustSat {
		neg = goal
	}
	roots = append(roots, o.Guard, neg)
	roots = append(roots, extra...)
	var qfacts []*Fact
	arrSeen := map[*Term]bool{}
	addedGround := map[int]bool{}
	// path slicing: a fact assumed under the guard of a DAG node that cannot reach the obligation's node is
	// vacuous on every execution reaching the obligation, so it is dropped
	var anc map[interface{}]bool
	if o.Tag != nil && vc.Ancestors != nil && !o.MustSat {
		anc = vc.Ancestors(o.Tag)
	}
	for i := range facts {
		f := &facts[i]
		if anc != nil && f.Tag != nil && !anc[f.Tag] {
			continue
		}
		if f.Vars != nil {
			if !light && (relevant == nil || relevant[i]) {
				qfacts = append(qfacts, f)
			}
		} else if f.Def == nil {
			if light && vc.factHasArrays(i, arrSeen) {
				continue
			}
			if relevant != nil && !relevant[i] {
				continue
			}
			addedGround[i] = true
			roots = append(roots, f.Body)
		}
	}
	// 2. cone of influence over definitions (transitively)
	included := map[int]bool{}
	seen := map[*Term]bool{}
	var asserts []*Term
	var work []*Term
	work = append(work, roots...)
	asserts = append(asserts, roots...)
	pull := func(t *Term) {
		Walk(t, seen, func(x *Term) {
			if x.Op == "const" {
				if di, ok := vc.defs[x.Name]; ok && di < o.NFacts && !included[di] && (relevant == nil || relevant[di]) {
					included[di] = true
					work = append(work, facts[di].Body)
					asserts = append(asserts, facts[di].Body)
				}
			}
		})
	}
	for len(work) > 0 {
		t := work[len(work)-1]
		work = work[:len(work)-1]
		pull(t)
	}
	// 3. instantiate quantified facts. Single-variable facts with select triggers are instantiated
	//    array-directed: for a trigger select(A, idx(v)) and a ground select(X, t) in the query with X
	//    related to A (common root array), v := t (plain index) or v := t - base (index base+v).
	//    Other facts use the pool of index terms / Skolem constants.
	ninst := 0
	done := map[string]bool{}
	rootMemo := map[*Term]map[*Term]bool{}
	var arrRoots func(t *Term, depth int) map[*Term]bool
	arrRoots = func(t *Term, depth int) map[*Term]bool {
		if r, ok := rootMemo[t]; ok {
			return r
		}
		r := map[*Term]bool{}
		rootMemo[t] = r
		if depth > 200 {
			r[t] = true
			return r
		}
		switch {
		case t.Op == "const":
			if di, ok := vc.defs[t.Name]; ok && di < o.NFacts {
				for k := range arrRoots(facts[di].Body.Args[1], depth+1) {
					r[k] = true
				}
			} else {
				r[t] = true
			}
		case t.Op == "store":
			for k := range arrRoots(t.Args[0], depth+1) {
				r[k] = true
			}
		case t.Op == "ite":
			for k := range arrRoots(t.Args[1], depth+1) {
				r[k] = true
			}
			for k := range arrRoots(t.Args[2], depth+1) {
				r[k] = true
			}
		case strings.HasPrefix(t.Op, "(as const"):
		case t.Op == "select" && t.Args[0].S.Kind == "Array" && t.Args[0].S.Elem.Kind == "Array":
			// inner array read from a heap component: look through the heap term's stores/ites
			var look func(h *Term, d int)
			o := t.Args[1]
			look = func(h *Term, d int) {
				if d > 200 {
					r[t] = true
					return
				}
				switch {
				case h.Op == "const":
					if di, ok := vc.defs[h.Name]; ok && di < len(facts) {
						look(facts[di].Body.Args[1], d+1)
					} else {
						r[mk("select", t.S, h, o)] = true
					}
				case h.Op == "store":
					if h.Args[1] == o {
						for k := range arrRoots(h.Args[2], depth+1) {
							r[k] = true
						}
					} else {
						look(h.Args[0], d+1)
					}
				case h.Op == "ite":
					look(h.Args[1], d+1)
					look(h.Args[2], d+1)
				default:
					r[t] = true
				}
			}
			look(t.Args[0], 0)
		default:
			r[t] = true
		}
		return r
	}
	related := func(a, b *Term) bool {
		ra, rb := arrRoots(a, 0), arrRoots(b, 0)
		for k := range ra {
			if rb[k] {
				return true
			}
		}
		return false
	}
	addInst := func(f *Fact, m map[string]*Term, key string, out *[]*Term) {
		if done[key] {
			return
		}
		done[key] = true
		inst := Subst(f.Body, m, map[*Term]*Term{})
		if inst != True {
			*out = append(*out, inst)
			ninst++
		}
	}
	gen0 := map[*Term]bool{}
	{
		seen0 := map[*Term]bool{}
		for _, a := range asserts {
			Walk(a, seen0, func(x *Term) {
				if x.Op == "select" {
					gen0[x.Args[1]] = true
				}
			})
		}
	}
	// goal-directed: instantiation is driven by the selects of the goal, the guard, their definition cone and
	// the instances generated so far (broad: by every select of the query).
	var drivers []*Term
	if os.Getenv("GOVC_BROAD") != "" {
		vc.Broad = true
	}
	if !vc.Broad {
		dseen := map[*Term]bool{}
		dincl := map[int]bool{}
		dwork := []*Term{o.Guard, neg}
		for len(dwork) > 0 {
			t := dwork[len(dwork)-1]
			dwork = dwork[:len(dwork)-1]
			drivers = append(drivers, t)
			Walk(t, dseen, func(x *Term) {
				if x.Op == "const" {
					if di, ok := vc.defs[x.Name]; ok && di < o.NFacts && !dincl[di] {
						dincl[di] = true
						dwork = append(dwork, facts[di].Body)
					}
				}
			})
		}
	}
	for round := 0; round < 8; round++ {
		var newAsserts []*Term
		// ground selects that drive instantiation
		type gsel struct{ arr, idx *Term }
		var gsels []gsel
		seenS := map[*Term]bool{}
		src := asserts
		if !vc.Broad {
			src = drivers
		}
		for _, a := range src {
			Walk(a, seenS, func(x *Term) {
				if x.Op == "select" && x.Args[0].S.Idx.Kind == "BV" {
					gsels = append(gsels, gsel{x.Args[0], x.Args[1]})
				}
			})
		}
		pool := collectIndexTerms(asserts, vc.Skolems)
		for _, f := range qfacts {
			if len(f.Vars) == 1 && len(f.Trigs) > 0 {
				v := f.Vars[0]
				for ti, tr := range f.Trigs {
					for _, gs := range gsels {
						if !gs.idx.S.Eq(v.S) || !related(gs.arr, tr.arr) {
							continue
						}
						var val *Term
						if tr.plain {
							val = gs.idx
						} else {
							if !gen0[gs.idx] {
								continue // linear patterns only match original index terms (termination)
							}
							val = BVBin("bvsub", gs.idx, tr.base)
						}
						addInst(f, map[string]*Term{v.Name: val}, fmt.Sprintf("%p|%d|%d", f, ti, val.id), &newAsserts)
					}
				}
				// Skolem constants are always candidates
				for _, sk := range vc.Skolems {
					if sk.S.Eq(v.S) {
						if _, used := usedConsts(asserts)[sk.Name]; used {
							addInst(f, map[string]*Term{v.Name: sk}, fmt.Sprintf("%p|sk|%d", f, sk.id), &newAsserts)
						}
					}
				}
				continue
			}
			if round >= 2 {
				continue
			}
			cands := make([][]*Term, len(f.Vars))
			ok := true
			for vi, v := range f.Vars {
				cands[vi] = pool[v.S.String()]
				if len(cands[vi]) == 0 {
					ok = false
				}
			}
			if !ok {
				continue
			}
			total := 1
			for _, c := range cands {
				total *= len(c)
			}
			if total > 3000 {
				for vi := range cands {
					if len(cands[vi]) > 40 {
						cands[vi] = cands[vi][:40]
					}
				}
			}
			idx := make([]int, len(cands))
			for {
				m := map[string]*Term{}
				key := fmt.Sprintf("%p", f)
				for vi, v := range f.Vars {
					m[v.Name] = cands[vi][idx[vi]]
					key += fmt.Sprintf("|%d", cands[vi][idx[vi]].id)
				}
				addInst(f, m, key, &newAsserts)
				k := 0
				for k < len(idx) {
					idx[k]++
					if idx[k] < len(cands[k]) {
						break
					}
					idx[k] = 0
					k++
				}
				if k == len(idx) {
					break
				}
			}
		}
		if len(newAsserts) == 0 {
			break
		}
		if sineExtend != nil {
			before := len(relevant)
			sineExtend(newAsserts)
			if len(relevant) != before {
				for i := range facts {
					f := &facts[i]
					if !relevant[i] || f.Vars != nil || f.Def != nil || addedGround[i] {
						continue
					}
					if light && vc.factHasArrays(i, arrSeen) {
						continue
					}
					addedGround[i] = true
					newAsserts = append(newAsserts, f.Body)
				}
			}
		}
		for _, a := range newAsserts {
			asserts = append(asserts, a)
			work = append(work, a)
			drivers = append(drivers, a)
		}
		nb := len(asserts)
		for len(work) > 0 {
			t := work[len(work)-1]
			work = work[:len(work)-1]
			pull(t)
		}
		drivers = append(drivers, asserts[nb:]...)
		if ninst > 4000 {
			break
		}
	}
	// 4. print
	q := vc.printQuery(asserts)
	q.NInst = ninst
	q.NAsserts = len(asserts)
	if !o.MustSat && UseIntBlast {
		dm := map[string]*Term{}
		for name, di := range vc.defs {
			if di < o.NFacts && included[di] {
				dm[name] = facts[di].Body.Args[1]
			}
		}
		if ia, ok, why := IntBlast(asserts, dm); ok {
			q.Alt = vc.printQuery(ia)
		} else {
			q.AltWhy = why
		}
	}
	return q
}

// factHasArrays: does ground fact i (with its definition cone) mention arrays?
func (vc *VC) factHasArrays(i int, memo map[*Term]bool) bool {
	work := []*Term{vc.Facts[i].Body}
	done := map[int]bool{}
	seen := map[*Term]bool{}
	for len(work) > 0 {
		t := work[len(work)-1]
		work = work[:len(work)-1]
		arr := false
		Walk(t, seen, func(x *Term) {
			if isElemArrayTerm(x) {
				arr = true
			}
			if x.Op == "const" {
				if di, ok := vc.defs[x.Name]; ok && di < i && !done[di] {
					done[di] = true
					work = append(work, vc.Facts[di].Body)
				}
			}
		})
		if arr {
			return true
		}
	}
	return false
}

// collectIndexTerms gathers, per sort, the ground terms used as select indices
// (and as arguments of uninterpreted functions).
func collectIndexTerms(asserts []*Term, skolems []*Term) map[string][]*Term {
	pool := map[string][]*Term{}
	have := map[string]bool{}
	seen := map[*Term]bool{}
	add := func(t *Term) {
		k := t.S.String() + "|" + t.String()
		if !have[k] {
			have[k] = true
			pool[t.S.String()] = append(pool[t.S.String()], t)
		}
	}
	skol := map[string]bool{}
	for _, sk := range skolems {
		skol[sk.Name] = true
	}
	for _, a := range asserts {
		Walk(a, seen, func(x *Term) {
			if x.Op == "select" {
				add(x.Args[1])
			} else if x.Op == "store" {
				add(x.Args[1])
			} else if x.Op == "const" && skol[x.Name] {
				add(x)
			}
		})
	}
	for k := range pool {
		sort.Slice(pool[k], func(i, j int) bool { return len(pool[k][i].String()) < len(pool[k][j].String()) })
	}
	return pool
}

func (vc *VC) printQuery(asserts []*Term) *Query {
	var b strings.Builder
	q := &Query{}
	b.WriteString("(set-logic ALL)\n")
	consts := map[string]*Sort{}
	seen := map[*Term]bool{}
	usedF := map[string]bool{}
	altF := map[string]string{}
	for _, a := range asserts {
		Walk(a, seen, func(x *Term) {
			if x.Op == "const" {
				consts[x.Name] = x.S
			} else if _, ok := vc.funcs[x.Op]; ok {
				usedF[x.Op] = true
			} else if strings.HasSuffix(x.Op, "$i") {
				if _, ok := altF[x.Op]; !ok {
					var as []string
					for _, a := range x.Args {
						as = append(as, a.S.String())
					}
					altF[x.Op] = fmt.Sprintf("(declare-fun %s (%s) %s)\n", x.Op, strings.Join(as, " "), x.S)
				}
			}
		})
	}
	for _, k := range sortedKeys(consts) {
		fmt.Fprintf(&b, "(declare-fun |%s| () %s)\n", k, consts[k])
		if consts[k].Kind != "Array" {
			q.Scalars = append(q.Scalars, k)
		}
	}
	for _, k := range sortedKeys(altF) {
		b.WriteString(altF[k])
	}
	for _, k := range sortedKeys(usedF) {
		f := vc.funcs[k]
		var as []string
		for _, s := range f.Args {
			as = append(as, s.String())
		}
		fmt.Fprintf(&b, "(declare-fun %s (%s) %s)\n", f.Name, strings.Join(as, " "), f.Res)
	}
	// DAG printing: shared non-leaf subterms become define-funs (macros), so the text stays linear in the DAG size
	refs := map[*Term]int{}
	var order []*Term
	seen2 := map[*Term]bool{}
	var visit func(t *Term)
	visit = func(t *Term) {
		refs[t]++
		if seen2[t] {
			return
		}
		seen2[t] = true
		for _, a := range t.Args {
			visit(a)
		}
		order = append(order, t)
	}
	for _, a := range asserts {
		visit(a)
	}
	names := map[*Term]string{}
	for _, t := range order {
		if len(t.Args) > 0 && refs[t] > 1 {
			nm := fmt.Sprintf("t!%d", t.id)
			fmt.Fprintf(&b, "(define-fun |%s| () %s ", nm, t.S)
			writeTermN(&b, t, names, true)
			b.WriteString(")\n")
			names[t] = nm
		}
	}
	q.Header = b.String()
	for _, a := range asserts {
		if a == True {
			continue
		}
		var ab strings.Builder
		writeTermN(&ab, a, names, false)
		q.Asserts = append(q.Asserts, ab.String())
		b.WriteString("(assert ")
		b.WriteString(ab.String())
		b.WriteString(")\n")
	}
	q.Text = b.String()
	return q
}

func writeTermN(b *strings.Builder, t *Term, names map[*Term]string, top bool) {
	if !top {
		if nm, ok := names[t]; ok {
			b.WriteByte('|')
			b.WriteString(nm)
			b.WriteByte('|')
			return
		}
	}
	switch t.Op {
	case "const":
		b.WriteByte('|')
		b.WriteString(t.Name)
		b.WriteByte('|')
	case "lit":
		b.WriteString(t.Name)
	default:
		b.WriteByte('(')
		b.WriteString(t.Op)
		for _, a := range t.Args {
			b.WriteByte(' ')
			writeTermN(b, a, names, false)
		}
		b.WriteByte(')')
	}
}

func writeTerm(b *strings.Builder, t *Term) {
	switch t.Op {
	case "const":
		b.WriteByte('|')
		b.WriteString(t.Name)
		b.WriteByte('|')
	case "lit":
		b.WriteString(t.Name)
	default:
		b.WriteByte('(')
		b.WriteString(t.Op)
		for _, a := range t.Args {
			b.WriteByte(' ')
			writeTerm(b, a)
		}
		b.WriteByte(')')
	}
}

// TermText prints a term in SMT-LIB syntax (with |quoted| symbols).
func TermText(t *Term) string {
	var b strings.Builder
	writeTerm(&b, t)
	return b.String()
}
