package govc

import (
	"fmt"
	"go/token"
	"os"
	"sort"
	"strings"
	"sync"
)

// Fact is an entry of Γ: a definition, a guarded assumption, or a quantified fact.
type Fact struct {
	Def   *Term       // if non-nil: the defined constant; Body is (= Def expr)
	Tag   interface{} // DAG node under whose guard the fact was assumed (nil: unconditional)
	Body  *Term
	Vars  []*Term // quantified variables (const placeholders); nil for ground facts
	Trigs []trigger
	Label string
}

// Obligation is one proof obligation: Γ[0:NFacts] ∧ Guard ⊢ Goal.
type Obligation struct {
	ID       string
	Fn       string
	Kind     string
	Expr     string
	Pos      token.Position
	Props    []string
	Guard    *Term
	Goal     *Term
	NFacts   int
	MustSat  bool // vacuity / reachability obligations: expected SAT
	Inputs   []NamedTerm
	vc       *VC
	x        *Exec
	Tag      interface{}
	Note     string
	CaseName string
}

type NamedTerm struct {
	Name string
	V    Value
}

// FuncDecl is a declared uninterpreted function.
type FuncDecl struct {
	Name string
	Args []*Sort
	Res  *Sort
}

// VC is the verification-condition context of one function-under-contract (one case).
type VC struct {
	Facts       []Fact
	Obls        []*Obligation
	funcs       map[string]*FuncDecl
	nameCt      map[string]int
	defs        map[string]int // const name -> fact index of its definition
	Warn        []string
	warned      map[string]bool
	Assumptions map[string]bool
	Skolems     []*Term
	CurTag      interface{}
	Ancestors   func(tag interface{}) map[interface{}]bool
	symMu       sync.Mutex
	Broad       bool // instantiate driven by every select of the query (fallback)
	symMemo     map[*Term]map[string]bool
	dsymMemo    map[*Term]map[string]bool
}

func NewVC() *VC {
	return &VC{funcs: map[string]*FuncDecl{}, nameCt: map[string]int{}, defs: map[string]int{}, warned: map[string]bool{}, Assumptions: map[string]bool{}}
}

func (vc *VC) Warnf(format string, a ...interface{}) {
	s := fmt.Sprintf(format, a...)
	if !vc.warned[s] {
		vc.warned[s] = true
		vc.Warn = append(vc.Warn, s)
	}
}

func sanitize(s string) string {
	var b strings.Builder
	for _, r := range s {
		switch {
		case r >= 'a' && r <= 'z', r >= 'A' && r <= 'Z', r >= '0' && r <= '9', r == '_', r == '.', r == '$', r == '#', r == '!':
			b.WriteRune(r)
		default:
			b.WriteByte('_')
		}
	}
	return b.String()
}

// Fresh declares a fresh constant.
func (vc *VC) Fresh(hint string, s *Sort) *Term {
	hint = sanitize(hint)
	vc.nameCt[hint]++
	return Const(fmt.Sprintf("%s!%d", hint, vc.nameCt[hint]), s)
}

// Def names a term: introduces a constant with a defining equation (keeps terms small).
func (vc *VC) Def(hint string, t *Term) *Term {
	if t.Op == "const" || t.Op == "lit" {
		return t
	}
	c := vc.Fresh(hint, t.S)
	vc.defs[c.Name] = len(vc.Facts)
	vc.Facts = append(vc.Facts, Fact{Def: c, Body: Eq(c, t)})
	return c
}

// Assume adds a guarded ground assumption (conjunctions are split into separate facts).
func (vc *VC) Assume(guard, f *Term, label string) {
	if f.Op == "and" {
		for _, a := range f.Args {
			vc.Assume(guard, a, label)
		}
		return
	}
	if f.Op == "=>" && f.Args[1].Op == "and" {
		g2 := And(guard, f.Args[0])
		for _, a := range f.Args[1].Args {
			vc.Assume(g2, a, label)
		}
		return
	}
	b := Implies(guard, f)
	if b == True {
		return
	}
	fa := Fact{Body: b, Label: label}
	if guard != True {
		fa.Tag = vc.CurTag
	}
	vc.Facts = append(vc.Facts, fa)
}

// SplitGoal flattens a goal into conjuncts (hyps => atom), at most max pieces.
func SplitGoal(g *Term, max int) []*Term {
	var out []*Term
	var rec func(hyp, t *Term)
	rec = func(hyp, t *Term) {
		switch {
		case t.Op == "and":
			for _, a := range t.Args {
				rec(hyp, a)
			}
		case t.Op == "=>":
			rec(And(hyp, t.Args[0]), t.Args[1])
		default:
			out = append(out, Implies(hyp, t))
		}
	}
	rec(True, g)
	if len(out) > max || len(out) == 0 {
		return []*Term{g}
	}
	return out
}

// isElemArrayTerm: the term is (or operates on) an element array (indexed by 64-bit vectors), i.e. slice contents.
func isElemArrayTerm(x *Term) bool {
	// slice contents and maps are nested arrays (object -> index/key -> value); plain field components are flat
	if x.S.Kind == "Array" && (x.S.Idx.Kind == "BV" || x.S.Elem.Kind == "Array") {
		return true
	}
	return false
}

func hasArrayOps(t *Term, seen map[*Term]bool) bool {
	found := false
	Walk(t, seen, func(x *Term) {
		if x.Op == "select" || x.Op == "store" || x.S.Kind == "Array" {
			found = true
		}
	})
	return found
}

// trigger: a select(arr, idx) subterm of a quantified fact whose index mentions the bound variable.
type trigger struct {
	arr, idx, base *Term
	v              *Term // the quantified variable this trigger binds
	plain          bool  // idx is exactly the bound variable
}

// AssumeForall adds a quantified fact (instantiated engine-side). The body is miniscoped: conjuncts are
// registered separately, each quantified only over the variables it mentions (none: a ground assumption).
func (vc *VC) AssumeForall(vars []*Term, guard, body *Term, label string) {
	var tag interface{}
	if guard != True {
		tag = vc.CurTag
	}
	for _, piece := range miniscope(vars, Implies(guard, body)) {
		f := Fact{Body: piece.body, Vars: piece.vars, Label: label, Tag: tag}
		if len(f.Vars) == 0 {
			f.Vars = nil
			if f.Body == True {
				continue
			}
			vc.Facts = append(vc.Facts, f)
			continue
		}
		computeTrigs(&f)
		vc.Facts = append(vc.Facts, f)
	}
}

type scoped struct {
	body *Term
	vars []*Term
}

// miniscope splits forall vars. (H => (P1 and P2 ...)) into one formula per conjunct with only the variables
// that occur in it.
func miniscope(vars []*Term, body *Term) []scoped {
	var out []scoped
	var rec func(hyp, t *Term)
	rec = func(hyp, t *Term) {
		switch {
		case t.Op == "and":
			for _, a := range t.Args {
				rec(hyp, a)
			}
		case t.Op == "=>":
			rec(And(hyp, t.Args[0]), t.Args[1])
		default:
			p := Implies(hyp, t)
			var vs []*Term
			for _, v := range vars {
				if mentions(p, v) {
					vs = append(vs, v)
				}
			}
			out = append(out, scoped{p, vs})
		}
	}
	rec(True, body)
	if len(out) > 64 {
		return []scoped{{body, vars}}
	}
	return out
}

// computeTrigs finds, for each quantified variable, select patterns whose index mentions only that variable
// (plain v, or base+v for bit-vectors) and whose array mentions no quantified variable.
func computeTrigs(f *Fact) {
	f.Trigs = nil
	isVar := map[*Term]bool{}
	for _, v := range f.Vars {
		isVar[v] = true
	}
	mentionsAny := func(t *Term, except *Term) bool {
		found := false
		Walk(t, map[*Term]bool{}, func(x *Term) {
			if isVar[x] && x != except {
				found = true
			}
		})
		return found
	}
	have := map[string]bool{}
	Walk(f.Body, map[*Term]bool{}, func(x *Term) {
		if x.Op != "select" {
			return
		}
		for _, v := range f.Vars {
			if !x.Args[1].S.Eq(v.S) || !mentions(x.Args[1], v) {
				continue
			}
			if mentionsAny(x.Args[1], v) || mentionsAny(x.Args[0], nil) {
				continue
			}
			tr := trigger{arr: x.Args[0], idx: x.Args[1], v: v}
			if x.Args[1] == v {
				tr.plain = true
			} else {
				if v.S.Kind != "BV" || !linearIn(x.Args[1], v) {
					continue
				}
				tr.base = Subst(x.Args[1], map[string]*Term{v.Name: BVLit(0, v.S.W)}, map[*Term]*Term{})
			}
			k := fmt.Sprintf("%d|%d|%d", tr.arr.id, tr.idx.id, v.id)
			if !have[k] {
				have[k] = true
				f.Trigs = append(f.Trigs, tr)
			}
		}
	})
}

func mentions(t, v *Term) bool {
	found := false
	Walk(t, map[*Term]bool{}, func(x *Term) {
		if x == v {
			found = true
		}
	})
	return found
}

// linearIn: t is a bvadd-tree in which v occurs exactly once, as a summand.
func linearIn(t, v *Term) bool {
	if t == v {
		return true
	}
	if t.Op != "bvadd" {
		return false
	}
	l, r := mentions(t.Args[0], v), mentions(t.Args[1], v)
	if l && !r {
		return linearIn(t.Args[0], v)
	}
	if r && !l {
		return linearIn(t.Args[1], v)
	}
	return false
}

func usedConsts(asserts []*Term) map[string]*Sort {
	out := map[string]*Sort{}
	seen := map[*Term]bool{}
	for _, a := range asserts {
		Consts(a, seen, out)
	}
	return out
}

func (vc *VC) DeclFunc(name string, res *Sort, args ...*Sort) {
	if _, ok := vc.funcs[name]; !ok {
		vc.funcs[name] = &FuncDecl{Name: name, Args: args, Res: res}
	}
}

// UF applies a declared uninterpreted function.
func (vc *VC) UF(name string, res *Sort, args ...*Term) *Term {
	ss := make([]*Sort, len(args))
	for i, a := range args {
		ss[i] = a.S
	}
	vc.DeclFunc(name, res, ss...)
	return App(name, res, args...)
}

// ---- query construction ----

// Query is a ground SMT query: sat ⇔ the obligation fails.
type Query struct {
	Text     string   // complete query text (header + asserts), without (check-sat)
	Header   string   // options, declarations, define-funs
	Asserts  []string // one "(assert ...)" body per entry (the formula text only)
	Scalars  []string // names of declared scalar constants (for model extraction)
	Alt      *Query   // sound integer translation (unsat there implies unsat here); nil if not translatable
	AltWhy   string
	NInst    int
	NAsserts int
}

// UseIntBlast enables the engine's own integer translation as an additional (sound) proof attempt.
var UseIntBlast = true

type instCfg struct {
	rounds  int
	maxInst int
}

// BuildQuery builds the (instantiated, quantifier-free) query for an obligation.
func (vc *VC) BuildQuery(o *Obligation, extra []*Term) *Query {
	return vc.BuildQueryFor(o, o.Goal, extra, false)
}

// ScalarGoal reports whether guard, goal and their definition cone are free of array operations.
func (vc *VC) ScalarGoal(o *Obligation, goal *Term) bool {
	seen := map[*Term]bool{}
	work := []*Term{o.Guard, goal}
	done := map[int]bool{}
	for len(work) > 0 {
		t := work[len(work)-1]
		work = work[:len(work)-1]
		arr := false
		Walk(t, seen, func(x *Term) {
			if isElemArrayTerm(x) {
				arr = true
			}
			if x.Op == "const" {
				if di, ok := vc.defs[x.Name]; ok && di < o.NFacts && !done[di] {
					done[di] = true
					work = append(work, vc.Facts[di].Body)
				}
			}
		})
		if arr {
			return false
		}
	}
	return true
}

// BuildQueryFor builds the query for one goal piece. light: drop every assumption that mentions arrays
// and all quantified facts (sound: fewer hypotheses; used as a fast first attempt for scalar goals).
func (vc *VC) BuildQueryFor(o *Obligation, goal *Term, extra []*Term, light bool) *Query {
	return vc.BuildQueryRel(o, goal, extra, light, 0)
}

func isVarOf(f *Fact, name string) bool {
	for _, v := range f.Vars {
		if v.Name == name {
			return true
		}
	}
	return false
}

// directSyms returns the constant and uninterpreted-function symbols occurring in a term (no definition expansion).
func (vc *VC) directSyms(t *Term) map[string]bool {
	vc.symMu.Lock()
	defer vc.symMu.Unlock()
	if vc.dsymMemo == nil {
		vc.dsymMemo = map[*Term]map[string]bool{}
	}
	if r, ok := vc.dsymMemo[t]; ok {
		return r
	}
	out := map[string]bool{}
	Walk(t, map[*Term]bool{}, func(x *Term) {
		if x.Op == "const" {
			out[x.Name] = true
		}
	})
	vc.dsymMemo[t] = out
	return out
}

// symsOf returns the constant symbols of a term with definitions expanded (memoised per VC).
func (vc *VC) symsOf(t *Term, limit int) map[string]bool {
	vc.symMu.Lock()
	defer vc.symMu.Unlock()
	if vc.symMemo == nil {
		vc.symMemo = map[*Term]map[string]bool{}
	}
	if r, ok := vc.symMemo[t]; ok {
		return r
	}
	out := map[string]bool{}
	seen := map[*Term]bool{}
	work := []*Term{t}
	for len(work) > 0 {
		c := work[len(work)-1]
		work = work[:len(work)-1]
		Walk(c, seen, func(x *Term) {
			if x.Op == "const" && !out[x.Name] {
				out[x.Name] = true
				if di, ok := vc.defs[x.Name]; ok {
					work = append(work, vc.Facts[di].Body)
				}
			}
		})
	}
	vc.symMemo[t] = out
	return out
}

// BuildQueryRel is BuildQueryFor with a relevance depth: depth > 0 keeps only ground assumptions within
// that many symbol-sharing hops of the goal and guard (dropping hypotheses is sound for validity).
func (vc *VC) BuildQueryRel(o *Obligation, goal *Term, extra []*Term, light bool, depth int) *Query {
	allDefs := false
	broad := vc.Broad
	big := false
	if depth >= 2000 {
		// last resort: goal-directed instantiation with a three times larger instance budget
		big = true
		depth -= 2000
	}
	if depth >= 1000 {
		broad = true
		depth -= 1000
	}
	if depth >= 100 {
		allDefs = true
		depth -= 100
	}
	facts := vc.Facts[:o.NFacts]
	// SInE-style premise selection (depth > 0): a fact is triggered by its rarest symbols; starting from the
	// symbols of the goal and guard, triggered facts are added for `depth` rounds. Definitions are triggered by
	// the symbol they define. Unselected facts are dropped (sound: fewer hypotheses).
	var relevant map[int]bool
	tol := 2.0
	if depth >= 4 {
		tol = 4.0
	}
	var sineExtend func(ts []*Term)
	if depth > 0 && !o.MustSat {
		relevant = map[int]bool{}
		fsyms := make([]map[string]bool, len(facts))
		occ := map[string]int{}
		for i := range facts {
			fsyms[i] = vc.directSyms(facts[i].Body)
			for k := range fsyms[i] {
				occ[k]++
			}
		}
		trig := make([][]string, len(facts))
		for i := range facts {
			f := &facts[i]
			if f.Def != nil {
				trig[i] = []string{f.Def.Name}
				continue
			}
			min := 1 << 30
			for k := range fsyms[i] {
				if f.Vars != nil && isVarOf(f, k) {
					continue
				}
				if occ[k] < min {
					min = occ[k]
				}
			}
			for k := range fsyms[i] {
				if f.Vars != nil && isVarOf(f, k) {
					continue
				}
				if float64(occ[k]) <= tol*float64(min) {
					trig[i] = append(trig[i], k)
				}
			}
		}
		rel := map[string]bool{}
		for k := range vc.directSyms(goal) {
			rel[k] = true
		}
		for k := range vc.directSyms(o.Guard) {
			rel[k] = true
		}
		round := func() bool {
			add := map[string]bool{}
			changed := false
			for i := range facts {
				if relevant[i] {
					continue
				}
				hit := false
				for _, k := range trig[i] {
					if rel[k] {
						hit = true
						break
					}
				}
				if hit {
					relevant[i] = true
					changed = true
					for k := range fsyms[i] {
						add[k] = true
					}
				}
			}
			for k := range add {
				rel[k] = true
			}
			return changed
		}
		// definitions of relevant symbols are always unfolded, transitively (they do not count as a round)
		closeBool := func() {
			for changed := true; changed; {
				changed = false
				for i := range facts {
					f := &facts[i]
					if relevant[i] || f.Def == nil || !rel[f.Def.Name] || (f.Def.S != BoolS && !allDefs) {
						continue
					}
					relevant[i] = true
					changed = true
					for k := range fsyms[i] {
						rel[k] = true
					}
				}
			}
		}
		closeBool()
		for d := 0; d < depth; d++ {
			if !round() {
				break
			}
			closeBool()
		}
		sineExtend = func(ts []*Term) {
			for _, t := range ts {
				for k := range vc.directSyms(t) {
					rel[k] = true
				}
			}
			round()
		}
	}
	// 1. roots: goal, guard, all ground non-definition facts
	var roots []*Term
	neg := Not(goal)
	if o.MustSat {
		neg = goal
	}
	roots = append(roots, o.Guard, neg)
	roots = append(roots, extra...)
	var qfacts []*Fact
	arrSeen := map[*Term]bool{}
	addedGround := map[int]bool{}
	// path slicing: a fact assumed under the guard of a DAG node that cannot reach the obligation's node is
	// vacuous on every execution reaching the obligation, so it is dropped
	var anc map[interface{}]bool
	if o.Tag != nil && vc.Ancestors != nil && !o.MustSat {
		anc = vc.Ancestors(o.Tag)
	}
	for i := range facts {
		f := &facts[i]
		if anc != nil && f.Tag != nil && !anc[f.Tag] {
			if dl := os.Getenv("GOVC_DBGFACT"); dl != "" && f.Label == dl {
				fmt.Fprintf(os.Stderr, "DBGFACT sliced away: %.200s\n", TermText(f.Body))
			}
			continue
		}
		if f.Vars != nil {
			if !light && (relevant == nil || relevant[i]) {
				qfacts = append(qfacts, f)
			}
		} else if f.Def == nil {
			if light && vc.factHasArrays(i, arrSeen) {
				continue
			}
			if relevant != nil && !relevant[i] {
				continue
			}
			addedGround[i] = true
			roots = append(roots, f.Body)
		}
	}
	// 2. cone of influence over definitions (transitively)
	included := map[int]bool{}
	seen := map[*Term]bool{}
	var asserts []*Term
	var work []*Term
	work = append(work, roots...)
	asserts = append(asserts, roots...)
	pull := func(t *Term) {
		Walk(t, seen, func(x *Term) {
			if x.Op == "const" {
				if di, ok := vc.defs[x.Name]; ok && di < o.NFacts && !included[di] && (relevant == nil || relevant[di]) {
					included[di] = true
					work = append(work, facts[di].Body)
					asserts = append(asserts, facts[di].Body)
				}
			}
		})
	}
	for len(work) > 0 {
		t := work[len(work)-1]
		work = work[:len(work)-1]
		pull(t)
	}
	// 3. instantiate quantified facts. Single-variable facts with select triggers are instantiated
	//    array-directed: for a trigger select(A, idx(v)) and a ground select(X, t) in the query with X
	//    related to A (common root array), v := t (plain index) or v := t - base (index base+v).
	//    Other facts use the pool of index terms / Skolem constants.
	ninst := 0
	done := map[string]bool{}
	rootMemo := map[*Term]map[*Term]bool{}
	var arrRoots func(t *Term, depth int) map[*Term]bool
	arrRoots = func(t *Term, depth int) map[*Term]bool {
		if r, ok := rootMemo[t]; ok {
			return r
		}
		r := map[*Term]bool{}
		rootMemo[t] = r
		if depth > 200 {
			r[t] = true
			return r
		}
		switch {
		case t.Op == "const":
			if di, ok := vc.defs[t.Name]; ok && di < o.NFacts {
				for k := range arrRoots(facts[di].Body.Args[1], depth+1) {
					r[k] = true
				}
			} else {
				r[t] = true
			}
		case t.Op == "store":
			for k := range arrRoots(t.Args[0], depth+1) {
				r[k] = true
			}
		case t.Op == "ite":
			for k := range arrRoots(t.Args[1], depth+1) {
				r[k] = true
			}
			for k := range arrRoots(t.Args[2], depth+1) {
				r[k] = true
			}
		case strings.HasPrefix(t.Op, "(as const"):
		case t.Op == "select" && t.Args[0].S.Kind == "Array" && t.Args[0].S.Elem.Kind == "Array":
			// inner array read from a heap component: look through the heap term's stores/ites
			var look func(h *Term, d int)
			o := t.Args[1]
			look = func(h *Term, d int) {
				if d > 200 {
					r[t] = true
					return
				}
				switch {
				case h.Op == "const":
					if di, ok := vc.defs[h.Name]; ok && di < len(facts) {
						look(facts[di].Body.Args[1], d+1)
					} else {
						r[mk("select", t.S, h, o)] = true
					}
				case h.Op == "store":
					if h.Args[1] == o {
						for k := range arrRoots(h.Args[2], depth+1) {
							r[k] = true
						}
					} else {
						look(h.Args[0], d+1)
					}
				case h.Op == "ite":
					look(h.Args[1], d+1)
					look(h.Args[2], d+1)
				default:
					r[t] = true
				}
			}
			look(t.Args[0], 0)
		default:
			r[t] = true
		}
		return r
	}
	// heap component name underlying an array term (versions and objects ignored)
	compMemo := map[*Term]string{}
	var compName func(t *Term, d int) string
	compName = func(t *Term, d int) string {
		if r, ok := compMemo[t]; ok {
			return r
		}
		r := ""
		switch {
		case d > 100:
		case t.Op == "const":
			if strings.HasPrefix(t.Name, "H.") {
				r = t.Name
				if k := strings.LastIndex(r, "!"); k > 0 {
					r = r[:k]
				}
				if strings.HasPrefix(r, "H._") {
					// unmaterialised-after-havoc version: H._<epoch>.<key>
					if k := strings.Index(r[3:], "."); k >= 0 {
						r = "H." + r[3+k+1:]
					}
				}
			} else if di, ok := vc.defs[t.Name]; ok && di < o.NFacts {
				r = compName(facts[di].Body.Args[1], d+1)
			}
		case t.Op == "select" || t.Op == "store" || t.Op == "ite":
			k := 0
			if t.Op == "ite" {
				k = 1
			}
			r = compName(t.Args[k], d+1)
		}
		compMemo[t] = r
		return r
	}
	preciseOnly := false
	related := func(a, b *Term) bool {
		if preciseOnly {
			ra, rb := arrRoots(a, 0), arrRoots(b, 0)
			for k := range ra {
				if rb[k] {
					return true
				}
			}
			return false
		}
		if a.S.Kind == "Array" && a.S.Idx.Kind != "BV" {
			ca, cb := compName(a, 0), compName(b, 0)
			return ca != "" && ca == cb
		}
		ra, rb := arrRoots(a, 0), arrRoots(b, 0)
		for k := range ra {
			if rb[k] {
				return true
			}
		}
		// element arrays of non-byte slices: same heap component is close enough (objects are often named differently)
		if a.S.Kind == "Array" && a.S.Elem.Kind != "BV" || (a.S.Kind == "Array" && a.S.Elem.Kind == "BV" && a.S.Elem.W != 8) {
			ca, cb := compName(a, 0), compName(b, 0)
			return ca != "" && ca == cb
		}
		return false
	}
	addInst := func(f *Fact, m map[string]*Term, key string, out *[]*Term) {
		if done[key] {
			return
		}
		done[key] = true
		inst := Subst(f.Body, m, map[*Term]*Term{})
		if inst != True {
			*out = append(*out, inst)
			ninst++
		}
	}
	maxInst := 3000
	if big {
		maxInst = 9000
	}
	if v := os.Getenv("GOVC_MAXINST"); v != "" {
		fmt.Sscan(v, &maxInst)
	}
	gen0 := map[*Term]bool{}
	{
		seen0 := map[*Term]bool{}
		for _, a := range asserts {
			Walk(a, seen0, func(x *Term) {
				if x.Op == "select" {
					gen0[x.Args[1]] = true
				}
			})
		}
	}
	// goal-directed: instantiation is driven by the selects of the goal, the guard, their definition cone and
	// the instances generated so far (broad: by every select of the query).
	var drivers []*Term
	if os.Getenv("GOVC_BROAD") != "" {
		broad = true
	}
	if !broad {
		dseen := map[*Term]bool{}
		dincl := map[int]bool{}
		dwork := []*Term{o.Guard, neg}
		// ground assumptions that talk about a heap component the goal itself reads (e.g. the instance of a lock
		// invariant that relates it to a ghost token) also drive instantiation
		goalComps := map[string]bool{}
		Walk(neg, map[*Term]bool{}, func(x *Term) {
			if x.Op == "const" && strings.HasPrefix(x.Name, "H.") {
				goalComps[x.Name] = true
			}
		})
		if len(goalComps) > 0 {
			nAdd := 0
			for i := range facts {
				if !addedGround[i] || nAdd >= 40 {
					continue
				}
				hit := false
				Walk(facts[i].Body, map[*Term]bool{}, func(x *Term) {
					if x.Op == "const" && goalComps[x.Name] {
						hit = true
					}
				})
				if hit {
					dwork = append(dwork, facts[i].Body)
					nAdd++
				}
			}
		}
		for len(dwork) > 0 {
			t := dwork[len(dwork)-1]
			dwork = dwork[:len(dwork)-1]
			drivers = append(drivers, t)
			Walk(t, dseen, func(x *Term) {
				if x.Op == "const" {
					if di, ok := vc.defs[x.Name]; ok && di < o.NFacts && !dincl[di] {
						dincl[di] = true
						dwork = append(dwork, facts[di].Body)
					}
				}
			})
		}
	}
	// important facts first (invariants, contracts, cuts); bookkeeping facts (reference bounds, monotone flags) last
	prio := func(f *Fact) int {
		switch {
		case strings.HasPrefix(f.Label, "lockinv"), f.Label == "loop-inv", f.Label == "cut", f.Label == "spec-forall", strings.HasPrefix(f.Label, "post:"), f.Label == "requires":
			return 0
		case f.Label == "ref-bound", f.Label == "observe-monotone":
			return 2
		}
		return 1
	}
	sort.SliceStable(qfacts, func(i, j int) bool { return prio(qfacts[i]) < prio(qfacts[j]) })
	nLow := 0
	nq0 := len(qfacts)
	for round := 0; round < 6; round++ {
		var newAsserts []*Term
		// ground selects that drive instantiation
		type gsel struct{ arr, idx *Term }
		var gsels []gsel
		seenS := map[*Term]bool{}
		src := asserts
		if !broad {
			src = drivers
		}
		for _, a := range src {
			Walk(a, seenS, func(x *Term) {
				if x.Op == "select" {
					gsels = append(gsels, gsel{x.Args[0], x.Args[1]})
				}
			})
		}
		pool := collectIndexTerms(asserts, vc.Skolems)
		usedNow := usedConsts(asserts)
		lastLow, lastBefore := false, 0
		for fi := 0; fi < len(qfacts); fi++ {
			if lastLow {
				nLow += ninst - lastBefore
			}
			f := qfacts[fi]
			if dl := os.Getenv("GOVC_DBGFACT"); dl != "" && f.Label == dl && round == 0 {
				fmt.Fprintf(os.Stderr, "DBGFACT %s vars=%d trigs=%d body=%.300s\n", f.Label, len(f.Vars), len(f.Trigs), TermText(f.Body))
			}
			lastLow, lastBefore = prio(f) == 2, ninst
			preciseOnly = f.Label == "ref-bound"
			if ninst > maxInst {
				break
			}
			if prio(f) == 2 {
				if nLow > 400 {
					continue
				}
			}
			if len(f.Vars) > 1 && len(f.Trigs) > 0 {
				// staged instantiation: bind one variable through its trigger; the partially instantiated fact
				// (fewer variables) joins the list and is processed like any other
				for ti, tr := range f.Trigs {
					for _, gs := range gsels {
						if !gs.idx.S.Eq(tr.v.S) || !related(gs.arr, tr.arr) {
							continue
						}
						var val *Term
						if tr.plain {
							val = gs.idx
						} else {
							if !gen0[gs.idx] {
								continue
							}
							val = BVBin("bvsub", gs.idx, tr.base)
						}
						key := fmt.Sprintf("%p|%d|%d", f, ti, val.id)
						if done[key] {
							continue
						}
						done[key] = true
						var rest []*Term
						for _, ov := range f.Vars {
							if ov != tr.v {
								rest = append(rest, ov)
							}
						}
						for _, piece := range miniscope(rest, Subst(f.Body, map[string]*Term{tr.v.Name: val}, map[*Term]*Term{})) {
							if len(piece.vars) == 0 {
								if piece.body != True {
									newAsserts = append(newAsserts, piece.body)
									ninst++
								}
								continue
							}
							nf := &Fact{Body: piece.body, Vars: piece.vars, Label: f.Label, Tag: f.Tag}
							computeTrigs(nf)
							qfacts = append(qfacts, nf)
						}
						if len(qfacts) > nq0+400 {
							break
						}
					}
				}
				continue
			}
			if len(f.Vars) == 1 && len(f.Trigs) > 0 {
				v := f.Vars[0]
				for ti, tr := range f.Trigs {
					for _, gs := range gsels {
						if !gs.idx.S.Eq(v.S) || !related(gs.arr, tr.arr) {
							continue
						}
						var val *Term
						if tr.plain {
							val = gs.idx
						} else {
							if !gen0[gs.idx] {
								continue // linear patterns only match original index terms (termination)
							}
							val = BVBin("bvsub", gs.idx, tr.base)
						}
						addInst(f, map[string]*Term{v.Name: val}, fmt.Sprintf("%p|%d|%d", f, ti, val.id), &newAsserts)
					}
				}
				// Skolem constants are always candidates
				for _, sk := range vc.Skolems {
					if sk.S.Eq(v.S) {
						if _, used := usedNow[sk.Name]; used {
							addInst(f, map[string]*Term{v.Name: sk}, fmt.Sprintf("%p|sk|%d", f, sk.id), &newAsserts)
						}
					}
				}
				continue
			}
			if round >= 2 {
				continue
			}
			cands := make([][]*Term, len(f.Vars))
			ok := true
			for vi, v := range f.Vars {
				cands[vi] = pool[v.S.String()]
				if len(cands[vi]) == 0 {
					ok = false
				}
			}
			if !ok {
				continue
			}
			total := 1
			for _, c := range cands {
				total *= len(c)
			}
			if total > 3000 {
				for vi := range cands {
					if len(cands[vi]) > 40 {
						cands[vi] = cands[vi][:40]
					}
				}
			}
			idx := make([]int, len(cands))
			for {
				m := map[string]*Term{}
				key := fmt.Sprintf("%p", f)
				for vi, v := range f.Vars {
					m[v.Name] = cands[vi][idx[vi]]
					key += fmt.Sprintf("|%d", cands[vi][idx[vi]].id)
				}
				addInst(f, m, key, &newAsserts)
				k := 0
				for k < len(idx) {
					idx[k]++
					if idx[k] < len(cands[k]) {
						break
					}
					idx[k] = 0
					k++
				}
				if k == len(idx) {
					break
				}
			}
		}
		if len(newAsserts) == 0 {
			break
		}
		if sineExtend != nil {
			before := len(relevant)
			sineExtend(newAsserts)
			if len(relevant) != before {
				for i := range facts {
					f := &facts[i]
					if !relevant[i] || f.Vars != nil || f.Def != nil || addedGround[i] {
						continue
					}
					if light && vc.factHasArrays(i, arrSeen) {
						continue
					}
					addedGround[i] = true
					newAsserts = append(newAsserts, f.Body)
				}
			}
		}
		if round == 0 && big {
			// linear (base+v) patterns may also match the index terms produced by the first round of instances
			// (one extra generation: e.g. an element shifted by copy, then the invariant of the old array), never later ones
			seen1 := map[*Term]bool{}
			for _, a := range newAsserts {
				Walk(a, seen1, func(x *Term) {
					if x.Op == "select" {
						gen0[x.Args[1]] = true
					}
				})
			}
		}
		for _, a := range newAsserts {
			asserts = append(asserts, a)
			work = append(work, a)
			drivers = append(drivers, a)
		}
		nb := len(asserts)
		for len(work) > 0 {
			t := work[len(work)-1]
			work = work[:len(work)-1]
			pull(t)
		}
		drivers = append(drivers, asserts[nb:]...)
		if ninst > maxInst {
			break
		}
	}
	// 4. print
	q := vc.printQuery(asserts)
	q.NInst = ninst
	q.NAsserts = len(asserts)
	if !o.MustSat && UseIntBlast {
		dm := map[string]*Term{}
		for name, di := range vc.defs {
			if di < o.NFacts && included[di] {
				dm[name] = facts[di].Body.Args[1]
			}
		}
		if ia, ok, why := IntBlast(asserts, dm); ok {
			q.Alt = vc.printQuery(ia)
		} else {
			q.AltWhy = why
		}
	}
	return q
}

// factHasArrays: does ground fact i (with its definition cone) mention arrays?
func (vc *VC) factHasArrays(i int, memo map[*Term]bool) bool {
	work := []*Term{vc.Facts[i].Body}
	done := map[int]bool{}
	seen := map[*Term]bool{}
	for len(work) > 0 {
		t := work[len(work)-1]
		work = work[:len(work)-1]
		arr := false
		Walk(t, seen, func(x *Term) {
			if isElemArrayTerm(x) {
				arr = true
			}
			if x.Op == "const" {
				if di, ok := vc.defs[x.Name]; ok && di < i && !done[di] {
					done[di] = true
					work = append(work, vc.Facts[di].Body)
				}
			}
		})
		if arr {
			return true
		}
	}
	return false
}

// collectIndexTerms gathers, per sort, the ground terms used as select indices
// (and as arguments of uninterpreted functions).
func collectIndexTerms(asserts []*Term, skolems []*Term) map[string][]*Term {
	pool := map[string][]*Term{}
	have := map[string]bool{}
	seen := map[*Term]bool{}
	add := func(t *Term) {
		k := t.S.String() + "|" + t.String()
		if !have[k] {
			have[k] = true
			pool[t.S.String()] = append(pool[t.S.String()], t)
		}
	}
	skol := map[string]bool{}
	for _, sk := range skolems {
		skol[sk.Name] = true
	}
	for _, a := range asserts {
		Walk(a, seen, func(x *Term) {
			if x.Op == "select" {
				add(x.Args[1])
			} else if x.Op == "store" {
				add(x.Args[1])
			} else if x.Op == "const" && skol[x.Name] {
				add(x)
			}
		})
	}
	add(BVLit(0, 64))
	for k := range pool {
		sort.Slice(pool[k], func(i, j int) bool { return len(pool[k][i].String()) < len(pool[k][j].String()) })
	}
	return pool
}

func (vc *VC) printQuery(asserts []*Term) *Query {
	var b strings.Builder
	q := &Query{}
	b.WriteString("(set-logic ALL)\n")
	consts := map[string]*Sort{}
	seen := map[*Term]bool{}
	usedF := map[string]bool{}
	altF := map[string]string{}
	for _, a := range asserts {
		Walk(a, seen, func(x *Term) {
			if x.Op == "const" {
				consts[x.Name] = x.S
			} else if _, ok := vc.funcs[x.Op]; ok {
				usedF[x.Op] = true
			} else if strings.HasSuffix(x.Op, "$i") {
				if _, ok := altF[x.Op]; !ok {
					var as []string
					for _, a := range x.Args {
						as = append(as, a.S.String())
					}
					altF[x.Op] = fmt.Sprintf("(declare-fun %s (%s) %s)\n", x.Op, strings.Join(as, " "), x.S)
				}
			}
		})
	}
	for _, k := range sortedKeys(consts) {
		fmt.Fprintf(&b, "(declare-fun |%s| () %s)\n", k, consts[k])
		if consts[k].Kind != "Array" {
			q.Scalars = append(q.Scalars, k)
		}
	}
	for _, k := range sortedKeys(altF) {
		b.WriteString(altF[k])
	}
	for _, k := range sortedKeys(usedF) {
		f := vc.funcs[k]
		var as []string
		for _, s := range f.Args {
			as = append(as, s.String())
		}
		fmt.Fprintf(&b, "(declare-fun %s (%s) %s)\n", f.Name, strings.Join(as, " "), f.Res)
	}
	// DAG printing: shared non-leaf subterms become define-funs (macros), so the text stays linear in the DAG size
	refs := map[*Term]int{}
	var order []*Term
	seen2 := map[*Term]bool{}
	var visit func(t *Term)
	visit = func(t *Term) {
		refs[t]++
		if seen2[t] {
			return
		}
		seen2[t] = true
		for _, a := range t.Args {
			visit(a)
		}
		order = append(order, t)
	}
	for _, a := range asserts {
		visit(a)
	}
	names := map[*Term]string{}
	for _, t := range order {
		if len(t.Args) > 0 && refs[t] > 1 && os.Getenv("GOVC_NOSHARE") == "" {
			nm := fmt.Sprintf("t!%d", t.id)
			fmt.Fprintf(&b, "(define-fun |%s| () %s ", nm, t.S)
			writeTermN(&b, t, names, true)
			b.WriteString(")\n")
			names[t] = nm
		}
	}
	q.Header = b.String()
	for _, a := range asserts {
		if a == True {
			continue
		}
		var ab strings.Builder
		writeTermN(&ab, a, names, false)
		q.Asserts = append(q.Asserts, ab.String())
		b.WriteString("(assert ")
		b.WriteString(ab.String())
		b.WriteString(")\n")
	}
	q.Text = b.String()
	return q
}

func writeTermN(b *strings.Builder, t *Term, names map[*Term]string, top bool) {
	if !top {
		if nm, ok := names[t]; ok {
			b.WriteByte('|')
			b.WriteString(nm)
			b.WriteByte('|')
			return
		}
	}
	switch t.Op {
	case "const":
		b.WriteByte('|')
		b.WriteString(t.Name)
		b.WriteByte('|')
	case "lit":
		b.WriteString(t.Name)
	default:
		b.WriteByte('(')
		b.WriteString(t.Op)
		for _, a := range t.Args {
			b.WriteByte(' ')
			writeTermN(b, a, names, false)
		}
		b.WriteByte(')')
	}
}

func writeTerm(b *strings.Builder, t *Term) {
	switch t.Op {
	case "const":
		b.WriteByte('|')
		b.WriteString(t.Name)
		b.WriteByte('|')
	case "lit":
		b.WriteString(t.Name)
	default:
		b.WriteByte('(')
		b.WriteString(t.Op)
		for _, a := range t.Args {
			b.WriteByte(' ')
			writeTerm(b, a)
		}
		b.WriteByte(')')
	}
}

// TermText prints a term in SMT-LIB syntax (with |quoted| symbols).
func TermText(t *Term) string {
	var b strings.Builder
	writeTerm(&b, t)
	return b.String()
}
