package govc

import (
	"bufio"
	"bytes"
	"context"
	"fmt"
	"io"
	"os"
	"os/exec"
	"path/filepath"
	"strings"
	"sync"
	"time"
)

// SolverResult is the outcome of racing the solvers on one query.
type SolverResult struct {
	Status string // "unsat", "sat", "unknown", "timeout", "error"
	Solver string
	Ms     int64
	Output string
	File   string
}

type solverSpec struct {
	name string
	argv []string
}

var solvers = []solverSpec{
	{"z3-4.8.12", []string{"/usr/bin/z3", "-smt2"}},
	{"z3-new-5.1.0", []string{"z3-new", "-smt2"}},
	{"cvc5-1.0", []string{"cvc5", "--lang=smt2", "--produce-models"}},
}

// SolverSet selects which solvers race (indices into solvers).
var SolverSet = []int{0, 1}

var tmpDir string
var tmpOnce sync.Once
var qCounter int
var qMu sync.Mutex

func TmpDir() string {
	tmpOnce.Do(func() {
		base := os.Getenv("TMPDIR")
		if base == "" {
			base = "/tmp"
		}
		tmpDir = filepath.Join(base, fmt.Sprintf("govc-%d", os.Getpid()))
		os.MkdirAll(tmpDir, 0o755)
	})
	return tmpDir
}

func Cleanup() {
	if tmpDir != "" {
		os.RemoveAll(tmpDir)
	}
}

// Solve races the configured solvers on text+"(check-sat)".
func Solve(text string, timeout time.Duration) SolverResult {
	qMu.Lock()
	qCounter++
	n := qCounter
	qMu.Unlock()
	file := filepath.Join(TmpDir(), fmt.Sprintf("q%06d.smt2", n))
	os.WriteFile(file, []byte(text+"(check-sat)\n"), 0o644)
	ctx, cancel := context.WithTimeout(context.Background(), timeout)
	defer cancel()
	type res struct {
		SolverResult
	}
	ch := make(chan SolverResult, len(SolverSet))
	start := time.Now()
	for _, si := range SolverSet {
		sp := solvers[si]
		go func(sp solverSpec) {
			args := append([]string{}, sp.argv[1:]...)
			args = append(args, file)
			cmd := exec.CommandContext(ctx, sp.argv[0], args...)
			var out bytes.Buffer
			cmd.Stdout = &out
			cmd.Stderr = &out
			cmd.Run()
			first := strings.TrimSpace(strings.SplitN(out.String(), "\n", 2)[0])
			st := "error"
			switch first {
			case "sat", "unsat", "unknown":
				st = first
			}
			if ctx.Err() != nil && st == "error" {
				st = "timeout"
			}
			ch <- SolverResult{Status: st, Solver: sp.name, Ms: time.Since(start).Milliseconds(), Output: out.String(), File: file}
		}(sp)
	}
	best := SolverResult{Status: "timeout", File: file}
	for range SolverSet {
		r := <-ch
		if r.Status == "sat" || r.Status == "unsat" {
			cancel()
			// drain in background
			return r
		}
		if best.Status == "timeout" || (best.Status == "error" && r.Status != "timeout") {
			best = r
		}
	}
	best.Ms = time.Since(start).Milliseconds()
	return best
}

// Session is an interactive z3 process used for model extraction.
type Session struct {
	cmd *exec.Cmd
	in  io.WriteCloser
	out *bufio.Reader
}

func NewSession(text string, timeout time.Duration) (*Session, string, error) {
	cmd := exec.Command("timeout", "-k", "1", fmt.Sprintf("%d", int(timeout.Seconds())+1), "z3-new", "-in", "-smt2")
	in, _ := cmd.StdinPipe()
	outp, _ := cmd.StdoutPipe()
	cmd.Stderr = nil
	if err := cmd.Start(); err != nil {
		return nil, "", err
	}
	s := &Session{cmd: cmd, in: in, out: bufio.NewReader(outp)}
	io.WriteString(in, text)
	io.WriteString(in, "(check-sat)\n")
	line, err := s.out.ReadString('\n')
	if err != nil {
		s.Close()
		return nil, "", err
	}
	return s, strings.TrimSpace(line), nil
}

// Push adds assertions and re-checks.
func (s *Session) Check(extra string) string {
	io.WriteString(s.in, extra)
	io.WriteString(s.in, "(check-sat)\n")
	line, err := s.out.ReadString('\n')
	if err != nil {
		return "error"
	}
	return strings.TrimSpace(line)
}

// GetValue evaluates terms in the current model; returns the raw s-expression.
func (s *Session) GetValue(terms []string) (string, error) {
	io.WriteString(s.in, "(get-value ("+strings.Join(terms, " ")+"))\n")
	// read a balanced s-expression
	var b strings.Builder
	depth := 0
	started := false
	for {
		r, _, err := s.out.ReadRune()
		if err != nil {
			return b.String(), err
		}
		b.WriteRune(r)
		if r == '(' {
			depth++
			started = true
		} else if r == ')' {
			depth--
		}
		if started && depth == 0 {
			break
		}
	}
	return b.String(), nil
}

func (s *Session) Close() {
	s.in.Close()
	s.cmd.Process.Kill()
	s.cmd.Wait()
}
