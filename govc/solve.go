package govc

import (
	"bufio"
	"bytes"
	"context"
	"fmt"
	"io"
	"os"
	"os/exec"
	"path/filepath"
	"strings"
	"sync"
	"time"
)

// SolverResult is the outcome of racing the solvers on one query.
type SolverResult struct {
	Status      string // "unsat", "sat", "unknown", "timeout", "error"
	Solver      string
	Ms          int64
	Output      string
	File        string
	failedPiece *Term
}

type solverSpec struct {
	name string
	argv []string
}

var solvers = []solverSpec{
	{"z3-4.8.12", []string{"/usr/bin/z3", "-smt2"}},
	{"z3-new-5.1.0", []string{"z3-new", "-smt2"}},
	{"cvc5-1.0", []string{"cvc5", "--lang=smt2", "--produce-models"}},
	{"z3-new-5.1.0-intblast", []string{"z3-new", "-smt2", "smt.bv.solver=2"}},
}

// SolverSet selects which solvers race (indices into solvers).
var SolverSet = []int{3, 1, 0}

var tmpDir string
var tmpOnce sync.Once
var qCounter int
var qMu sync.Mutex

func TmpDir() string {
	tmpOnce.Do(func() {
		base := os.Getenv("TMPDIR")
		if base == "" {
			base = "/tmp"
		}
		tmpDir = filepath.Join(base, fmt.Sprintf("govc-%d", os.Getpid()))
		os.MkdirAll(tmpDir, 0o755)
	})
	return tmpDir
}

func Cleanup() {
	if os.Getenv("GOVC_KEEPTMP") != "" {
		return
	}
	if tmpDir != "" {
		os.RemoveAll(tmpDir)
	}
}

// runSolver runs one solver process on a file; returns first line status and full output.
func runSolver(ctx context.Context, sp solverSpec, file string) (string, string) {
	args := append([]string{}, sp.argv[1:]...)
	args = append(args, file)
	cmd := exec.CommandContext(ctx, sp.argv[0], args...)
	var out bytes.Buffer
	cmd.Stdout = &out
	cmd.Stderr = &out
	cmd.Run()
	first := strings.TrimSpace(strings.SplitN(out.String(), "\n", 2)[0])
	st := "error"
	switch first {
	case "sat", "unsat", "unknown":
		st = first
	}
	if ctx.Err() != nil && st == "error" {
		st = "timeout"
	}
	return st, out.String()
}

func newQueryFile(text string) string {
	qMu.Lock()
	qCounter++
	n := qCounter
	qMu.Unlock()
	file := filepath.Join(TmpDir(), fmt.Sprintf("q%06d.smt2", n))
	os.WriteFile(file, []byte(text), 0o644)
	return file
}

// trusted solvers decide; the int-blasting configuration of z3 (smt.bv.solver=2) is used only as a guide:
// its unsat cores and models are re-checked by a trusted solver before anything is believed
// (z3 5.1.0's int-blaster answered "unsat" on a satisfiable query of this project; see DESIGN.md).
var trustedSolvers = []int{1, 0}
var guideSolver = 3

// UseGuide enables core/model guidance by the int-blasting solver.
var UseGuide = true

// SolveQ decides a query: sat / unsat / unknown, by trusted solvers only. z3 5.1.0 starts at once on the
// bit-vector query and on the integer translation; z3 4.8.12 joins after a short delay (most queries are done by then).
func SolveQ(q *Query, timeout time.Duration) SolverResult {
	ctx, cancel := context.WithTimeout(context.Background(), timeout)
	defer cancel()
	start := time.Now()
	file := newQueryFile("(set-option :produce-models true)\n" + q.Text + "(check-sat)\n")
	afile := ""
	if q.Alt != nil {
		afile = newQueryFile(q.Alt.Text + "(check-sat)\n")
	}
	ch := make(chan SolverResult, 8)
	pending := 0
	launch := func(si int, delay time.Duration) {
		sp := solvers[si]
		pending++
		go func() {
			if delay > 0 {
				select {
				case <-time.After(delay):
				case <-ctx.Done():
					ch <- SolverResult{Status: "timeout", Solver: sp.name}
					return
				}
			}
			st, out := runSolver(ctx, sp, file)
			ch <- SolverResult{Status: st, Solver: sp.name, Output: out, File: file}
		}()
		if afile != "" {
			pending++
			go func() {
				if delay > 0 {
					select {
					case <-time.After(delay):
					case <-ctx.Done():
						ch <- SolverResult{Status: "timeout", Solver: sp.name + "+int"}
						return
					}
				}
				st, out := runSolver(ctx, sp, afile)
				if st != "unsat" {
					st = "unknown" // only unsat carries over from the integer translation
				}
				ch <- SolverResult{Status: st, Solver: sp.name + "+int", Output: out, File: afile}
			}()
		}
	}
	for i, si := range trustedSolvers {
		launch(si, time.Duration(i)*800*time.Millisecond)
	}
	if UseGuide {
		pending++
		go func() {
			ch <- guided(ctx, q)
		}()
	}
	best := SolverResult{Status: "timeout", File: file}
	for pending > 0 {
		r := <-ch
		pending--
		if r.Status == "sat" || r.Status == "unsat" {
			cancel()
			r.Ms = time.Since(start).Milliseconds()
			return r
		}
		if best.Status == "timeout" || (best.Status == "error" && r.Status != "timeout") {
			best = r
		}
	}
	best.Ms = time.Since(start).Milliseconds()
	return best
}

// guided asks the int-blasting solver first, then confirms its answer with trusted solvers:
// unsat -> the unsat core alone must be unsat for a trusted solver; sat -> the model's scalar values,
// asserted as equalities, must be sat for a trusted solver.
func guided(ctx context.Context, q *Query) SolverResult {
	var b strings.Builder
	b.WriteString("(set-option :produce-unsat-cores true)\n(set-option :produce-models true)\n")
	b.WriteString(q.Header)
	for i, a := range q.Asserts {
		fmt.Fprintf(&b, "(assert (! %s :named a!%d))\n", a, i)
	}
	b.WriteString("(check-sat)\n(get-unsat-core)\n")
	if len(q.Scalars) > 0 && len(q.Scalars) < 4000 {
		b.WriteString("(get-value (")
		for _, s := range q.Scalars {
			fmt.Fprintf(&b, "|%s| ", s)
		}
		b.WriteString("))\n")
	}
	gfile := newQueryFile(b.String())
	st, out := runSolver(ctx, solvers[guideSolver], gfile)
	switch st {
	case "unsat-core-disabled":
		// (z3's int-blaster does not track all assertions in its cores; kept for reference)
		// parse core
		lines := strings.SplitN(out, "\n", 3)
		if len(lines) < 2 {
			return SolverResult{Status: "unknown", Solver: "guide"}
		}
		core := map[int]bool{}
		for _, tok := range strings.Fields(strings.Trim(strings.TrimSpace(lines[1]), "()")) {
			var k int
			if _, err := fmt.Sscanf(tok, "a!%d", &k); err == nil {
				core[k] = true
			}
		}
		if len(core) == 0 {
			return SolverResult{Status: "unknown", Solver: "guide"}
		}
		var cb strings.Builder
		cb.WriteString(q.Header)
		for i, a := range q.Asserts {
			if core[i] {
				fmt.Fprintf(&cb, "(assert %s)\n", a)
			}
		}
		cb.WriteString("(check-sat)\n")
		cfile := newQueryFile(cb.String())
		return raceTrusted(ctx, cfile, fmt.Sprintf("+core(%d/%d) via intblast", len(core), len(q.Asserts)), "unsat")
	case "sat":
		// parse (get-value ...) output: pairs (|name| value)
		idx := strings.Index(out, "((")
		if idx < 0 {
			return SolverResult{Status: "unknown", Solver: "guide"}
		}
		vals := parseGetValue(out[idx:])
		if len(vals) == 0 {
			return SolverResult{Status: "unknown", Solver: "guide"}
		}
		var mb strings.Builder
		mb.WriteString("(set-option :produce-models true)\n")
		mb.WriteString(q.Text)
		for _, kv := range vals {
			fmt.Fprintf(&mb, "(assert (= %s %s))\n", kv[0], kv[1])
		}
		mb.WriteString("(check-sat)\n")
		mfile := newQueryFile(mb.String())
		r := raceTrusted(ctx, mfile, "+model via intblast", "sat")
		return r
	}
	return SolverResult{Status: "unknown", Solver: "guide"}
}

func raceTrusted(ctx context.Context, file, tag, want string) SolverResult {
	ch := make(chan SolverResult, len(trustedSolvers))
	for _, si := range trustedSolvers {
		sp := solvers[si]
		go func(sp solverSpec) {
			st, out := runSolver(ctx, sp, file)
			ch <- SolverResult{Status: st, Solver: sp.name + tag, Output: out, File: file}
		}(sp)
	}
	res := SolverResult{Status: "unknown", Solver: "guide"}
	for range trustedSolvers {
		r := <-ch
		if r.Status == want {
			return r
		}
	}
	return res
}

// parseGetValue parses "((t1 v1) (t2 v2) ...)" into term/value pairs (both may be arbitrary s-expressions).
func parseGetValue(s string) [][2]string {
	var out [][2]string
	i, n := 0, len(s)
	skip := func() {
		for i < n && (s[i] == ' ' || s[i] == '\n' || s[i] == '\t' || s[i] == '\r') {
			i++
		}
	}
	sexpr := func() string {
		skip()
		start := i
		if i < n && s[i] == '(' {
			depth := 0
			for i < n {
				if s[i] == '|' {
					i++
					for i < n && s[i] != '|' {
						i++
					}
				} else if s[i] == '(' {
					depth++
				} else if s[i] == ')' {
					depth--
					if depth == 0 {
						i++
						break
					}
				}
				i++
			}
			return s[start:i]
		}
		if i < n && s[i] == '|' {
			i++
			for i < n && s[i] != '|' {
				i++
			}
			i++
			return s[start:i]
		}
		for i < n && s[i] != ' ' && s[i] != ')' && s[i] != '\n' {
			i++
		}
		return s[start:i]
	}
	skip()
	if i < n && s[i] == '(' {
		i++
	}
	for i < n {
		skip()
		if i >= n || s[i] != '(' {
			break
		}
		i++
		name := sexpr()
		val := sexpr()
		skip()
		if i < n && s[i] == ')' {
			i++
		}
		out = append(out, [2]string{name, strings.TrimSpace(val)})
	}
	return out
}

// Session is an interactive z3 process used for model extraction.
type Session struct {
	cmd *exec.Cmd
	in  io.WriteCloser
	out *bufio.Reader
}

func NewSession(text string, timeout time.Duration) (*Session, string, error) {
	cmd := exec.Command("timeout", "-k", "1", fmt.Sprintf("%d", int(timeout.Seconds())+1), "z3-new", "-in", "-smt2")
	in, _ := cmd.StdinPipe()
	outp, _ := cmd.StdoutPipe()
	cmd.Stderr = nil
	if err := cmd.Start(); err != nil {
		return nil, "", err
	}
	s := &Session{cmd: cmd, in: in, out: bufio.NewReader(outp)}
	io.WriteString(in, text)
	io.WriteString(in, "(check-sat)\n")
	line, err := s.out.ReadString('\n')
	if err != nil {
		s.Close()
		return nil, "", err
	}
	return s, strings.TrimSpace(line), nil
}

// Push adds assertions and re-checks.
func (s *Session) Check(extra string) string {
	io.WriteString(s.in, extra)
	io.WriteString(s.in, "(check-sat)\n")
	line, err := s.out.ReadString('\n')
	if err != nil {
		return "error"
	}
	return strings.TrimSpace(line)
}

// GetValue evaluates terms in the current model; returns the raw s-expression.
func (s *Session) GetValue(terms []string) (string, error) {
	io.WriteString(s.in, "(get-value ("+strings.Join(terms, " ")+"))\n")
	// read a balanced s-expression
	var b strings.Builder
	depth := 0
	started := false
	for {
		r, _, err := s.out.ReadRune()
		if err != nil {
			return b.String(), err
		}
		b.WriteRune(r)
		if r == '(' {
			depth++
			started = true
		} else if r == ')' {
			depth--
		}
		if started && depth == 0 {
			break
		}
	}
	return b.String(), nil
}

func (s *Session) Close() {
	s.in.Close()
	s.cmd.Process.Kill()
	s.cmd.Wait()
}
