package govc

import (
	"fmt"
	"go/types"
	"sort"

	"golang.org/x/tools/go/ssa"
)

func (x *Exec) topSpecEnv(st *State, guard *Term, assume bool) *SpecEnv {
	errs := []string{}
	e := &SpecEnv{x: x, vars: map[string]Value{}, st: st, old: x.Entry, guard: guard, assume: assume, errs: &errs}
	for k, v := range x.params {
		e.vars[k] = v
	}
	return e
}

// loopWrites collects heap components and local cells written in the loop body.
func (x *Exec) loopWrites(fc *funcCtx, l *loopInfo) (map[string]bool, []*ssa.Alloc, bool) {
	w := map[string]bool{}
	var cells []*ssa.Alloc
	allocs := false
	seenCell := map[*ssa.Alloc]bool{}
	for b := range l.body {
		for _, ins := range b.Instrs {
			x.P.instrWrites(fc.fn, ins, w)
			switch i := ins.(type) {
			case *ssa.Store:
				if a, ok := i.Addr.(*ssa.Alloc); ok && !seenCell[a] {
					seenCell[a] = true
					cells = append(cells, a)
				}
			case *ssa.Alloc, *ssa.MakeSlice, *ssa.MakeMap, *ssa.MakeChan, *ssa.MakeClosure, *ssa.MakeInterface, *ssa.Call, *ssa.Convert, *ssa.BinOp:
				allocs = true
			}
		}
	}
	return w, cells, allocs
}

func (x *Exec) cutLoopHeader(fc *funcCtx, n *node, l *loopInfo) {
	st := n.st
	// 1. invariant holds on entry
	for _, c := range l.invs {
		env := x.topSpecEnv(st, n.guard, false)
		g := env.EvalBool(c.Expr)
		x.reportSpecErrors(env, x.TopName, c)
		x.Oblige("inv-entry", fmt.Sprintf("loop %d: %s", l.ordinal, clauseLabel(c)), "", l.header.Instrs[0].Pos(), n.guard, g, c.Props)
	}
	if len(l.invs) == 0 {
		x.VC.Warnf("%s: loop %d has no invariant (cut with invariant true)", fc.fn.Name(), l.ordinal)
	}
	// 2. havoc
	w, cells, allocs := x.loopWrites(fc, l)
	keys := make([]string, 0, len(w))
	for k := range w {
		keys = append(keys, k)
	}
	sort.Strings(keys)
	for _, k := range keys {
		if len(k) > 6 && k[:6] == "deref:" {
			x.VC.Warnf("%s: loop %d writes through a pointer parameter; not havocked", fc.fn.Name(), l.ordinal)
			continue
		}
		x.havocPrefix(n, k)
	}
	for _, a := range cells {
		for key := range st.Cells {
			if hasCellName(key, fc.fn.Name(), a.Name()) {
				st.Cells[key] = x.freshValue(st.CellTy[key], "cell."+a.Name(), n.guard, st)
			}
		}
	}
	if allocs {
		nn := x.VC.Fresh("next", IntS)
		x.VC.Assume(n.guard, IntCmp(">=", nn, st.Next), "next-monotone")
		st.Next = nn
	}
	x.havocGhostForLoop(n, fc, l)
	for _, ins := range n.b.Instrs {
		phi, ok := ins.(*ssa.Phi)
		if !ok {
			break
		}
		v := x.freshValue(phi.Type(), "loop."+phi.Comment, n.guard, st)
		n.env[phi] = v
		if phi.Comment != "" {
			st.Vars[phi.Comment] = v
		}
	}
	// 3. assume invariant
	for _, c := range l.invs {
		env := x.topSpecEnv(st, n.guard, true)
		g := env.EvalBool(c.Expr)
		x.reportSpecErrors(env, x.TopName, c)
		x.VC.Assume(n.guard, g, "loop-inv")
	}
}

func hasCellName(key, fn, name string) bool {
	p := fmt.Sprintf("cell:%s.%s", fn, name)
	return key == p || (len(key) > len(p) && key[:len(p)] == p && (key[len(p)] == '#' || key[len(p)] == '@'))
}

func (x *Exec) assertInvAtBackEdge(fc *funcCtx, n *node, l *loopInfo, cond *Term) {
	guard := x.VC.Def("g.back", And(n.guard, cond))
	st := n.st.Clone()
	pi := -1
	for k, p := range l.header.Preds {
		if p == n.b {
			pi = k
		}
	}
	for _, ins := range l.header.Instrs {
		phi, ok := ins.(*ssa.Phi)
		if !ok {
			break
		}
		if pi >= 0 && phi.Comment != "" {
			st.Vars[phi.Comment] = x.operandIn(n.env, phi.Edges[pi], n.st)
		}
	}
	for _, c := range l.invs {
		env := x.topSpecEnv(st, guard, false)
		g := env.EvalBool(c.Expr)
		x.reportSpecErrors(env, x.TopName, c)
		x.Oblige("inv-preserve", fmt.Sprintf("loop %d: %s", l.ordinal, clauseLabel(c)), fmt.Sprint(n.b.Index), l.header.Instrs[0].Pos(), guard, g, c.Props)
	}
}

func (x *Exec) sectionCut(fc *funcCtx, n *node, c *Clause) {
	st := n.st
	env := x.topSpecEnv(st, n.guard, false)
	g := env.EvalBool(c.Expr)
	x.reportSpecErrors(env, x.TopName, c)
	x.Oblige("cut", fmt.Sprintf("%s#%d: %s", c.Block, c.Ord, clauseLabel(c)), "", n.b.Instrs[0].Pos(), n.guard, g, c.Props)
	// havoc what was written since the previous cut
	keys := make([]string, 0, len(st.Written))
	for k := range st.Written {
		keys = append(keys, k)
	}
	sort.Strings(keys)
	for _, key := range keys {
		objs := st.Written[key]
		h, ok := st.Heap[key]
		if !ok {
			continue
		}
		whole := false
		for _, o := range objs {
			if o == nil {
				whole = true
			}
		}
		if whole {
			st.Heap[key] = x.VC.Fresh("cut."+key, h.S)
			continue
		}
		seen := map[*Term]bool{}
		cur := h
		for _, o := range objs {
			if seen[o] {
				continue
			}
			seen[o] = true
			cur = x.VC.Def("cut."+key, Store(cur, o, x.VC.Fresh("cutv."+key, h.S.Elem)))
		}
		st.Heap[key] = cur
	}
	st.Written = map[string][]*Term{}
	for _, ins := range n.b.Instrs {
		phi, ok := ins.(*ssa.Phi)
		if !ok {
			break
		}
		v := x.freshValue(phi.Type(), "cut."+phi.Comment, n.guard, st)
		n.env[phi] = v
		if phi.Comment != "" {
			st.Vars[phi.Comment] = v
		}
	}
	env2 := x.topSpecEnv(st, n.guard, true)
	g2 := env2.EvalBool(c.Expr)
	x.reportSpecErrors(env2, x.TopName, c)
	x.VC.Assume(n.guard, g2, "cut")
}

var _ = types.Typ
