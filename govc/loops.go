package govc

import (
	"fmt"
	"go/types"
	"sort"

	"golang.org/x/tools/go/ssa"
)

func (x *Exec) topSpecEnv(st *State, guard *Term, assume bool) *SpecEnv {
	errs := []string{}
	e := &SpecEnv{x: x, vars: map[string]Value{}, st: st, old: x.Entry, guard: guard, assume: assume, errs: &errs}
	for k, v := range x.params {
		e.vars[k] = v
	}
	return e
}

// localSpecEnv is for clauses evaluated in the middle of a function (invariants, cuts): a name denotes
// the current value of the local variable (parameters may have been reassigned).
func (x *Exec) localSpecEnv(st *State, guard *Term, assume bool) *SpecEnv {
	e := x.topSpecEnv(st, guard, assume)
	e.localFirst = true
	return e
}

// loopWrites collects heap components and local cells written in the loop body.
func (x *Exec) loopWrites(fc *funcCtx, l *loopInfo) (map[string]bool, []*ssa.Alloc, bool) {
	w := map[string]bool{}
	var cells []*ssa.Alloc
	allocs := false
	seenCell := map[*ssa.Alloc]bool{}
	for b := range l.body {
		for _, ins := range b.Instrs {
			x.P.instrWrites(fc.fn, ins, w)
			switch i := ins.(type) {
			case *ssa.Store:
				if a, ok := i.Addr.(*ssa.Alloc); ok && !seenCell[a] {
					seenCell[a] = true
					cells = append(cells, a)
				}
			case *ssa.Alloc, *ssa.MakeSlice, *ssa.MakeMap, *ssa.MakeChan, *ssa.MakeClosure, *ssa.MakeInterface, *ssa.Call, *ssa.Convert, *ssa.BinOp:
				allocs = true
			}
		}
	}
	return w, cells, allocs
}

func (x *Exec) cutLoopHeader(fc *funcCtx, n *node, l *loopInfo) {
	st := n.st
	// 1. invariant holds on entry
	for _, c := range l.invs {
		env := x.localSpecEnv(st, n.guard, false)
		g := env.EvalBool(c.Expr)
		x.reportSpecErrors(env, x.TopName, c)
		x.Oblige("inv-entry", fmt.Sprintf("loop %d: %s", l.ordinal, clauseLabel(c)), "", l.header.Instrs[0].Pos(), n.guard, g, c.Props)
	}
	if len(l.invs) == 0 {
		x.VC.Warnf("%s: loop %d has no invariant (cut with invariant true)", fc.fn.Name(), l.ordinal)
	}
	// 2. havoc
	w, cells, allocs := x.loopWrites(fc, l)
	keys := make([]string, 0, len(w))
	for k := range w {
		keys = append(keys, k)
	}
	sort.Strings(keys)
	for _, k := range keys {
		if len(k) > 6 && k[:6] == "deref:" {
			x.VC.Warnf("%s: loop %d writes through a pointer parameter; not havocked", fc.fn.Name(), l.ordinal)
			continue
		}
		x.havocPrefix(n, k)
	}
	for _, a := range cells {
		for key := range st.Cells {
			if hasCellName(key, fc.fn.Name(), a.Name()) {
				st.Cells[key] = x.freshValue(st.CellTy[key], "cell."+a.Name(), n.guard, st)
			}
		}
	}
	if allocs {
		nn := x.VC.Fresh("next", IntS)
		x.VC.Assume(n.guard, IntCmp(">=", nn, st.Next), "next-monotone")
		st.Next = nn
	}
	x.havocGhostForLoop(n, fc, l)
	// map iteration counters of range loops cut here: arbitrary 0 <= j <= n
	for b := range l.body {
		for _, ins := range b.Instrs {
			if nx, ok := ins.(*ssa.Next); ok && !nx.IsString {
				if ib, ok := n.env[nx.Iter].(iterBox); ok {
					jf := x.VC.Fresh("range.j", bv64)
					x.VC.Assume(n.guard, And(BVCmp("bvsle", BVLit(0, 64), jf), BVCmp("bvsle", jf, ib.it.n)), "range-j")
					st.Vars["range.j:"+nx.Iter.Name()] = Scalar{T: jf, Ty: tyInt}
					st.Vars["range.iter"] = ib
				}
			}
		}
	}
	for _, ins := range n.b.Instrs {
		phi, ok := ins.(*ssa.Phi)
		if !ok {
			break
		}
		v := x.freshValue(phi.Type(), "loop."+phi.Comment, n.guard, st)
		n.env[phi] = v
		if phi.Comment != "" {
			st.Vars[phi.Comment] = v
		}
		// index of a range-over-slice loop: starts at -1 and is incremented by one while < len: never below -1
		if sc, ok := v.(Scalar); ok && sc.T.S.Kind == "BV" && sc.T.S.W == 64 && isRangeIndexPhi(phi) {
			x.VC.Assume(n.guard, And(BVCmp("bvsge", sc.T, BVLit(^uint64(0), 64)), BVCmp("bvsle", sc.T, lim47)), "rangeindex")
		}
	}
	// 3. assume invariant
	for _, c := range l.invs {
		env := x.localSpecEnv(st, n.guard, true)
		g := env.EvalBool(c.Expr)
		x.reportSpecErrors(env, x.TopName, c)
		x.VC.Assume(n.guard, g, "loop-inv")
	}
}

func hasCellName(key, fn, name string) bool {
	p := fmt.Sprintf("cell:%s.%s", fn, name)
	return key == p || (len(key) > len(p) && key[:len(p)] == p && (key[len(p)] == '#' || key[len(p)] == '@'))
}

func (x *Exec) assertInvAtBackEdge(fc *funcCtx, n *node, l *loopInfo, cond *Term) {
	guard := x.VC.Def("g.back", And(n.guard, cond))
	st := n.st.Clone()
	pi := -1
	for k, p := range l.header.Preds {
		if p == n.b {
			pi = k
		}
	}
	for _, ins := range l.header.Instrs {
		phi, ok := ins.(*ssa.Phi)
		if !ok {
			break
		}
		if pi >= 0 && phi.Comment != "" {
			st.Vars[phi.Comment] = x.operandIn(n.env, phi.Edges[pi], n.st)
		}
	}
	for _, c := range l.invs {
		env := x.localSpecEnv(st, guard, false)
		g := env.EvalBool(c.Expr)
		x.reportSpecErrors(env, x.TopName, c)
		x.Oblige("inv-preserve", fmt.Sprintf("loop %d: %s", l.ordinal, clauseLabel(c)), fmt.Sprint(n.b.Index), l.header.Instrs[0].Pos(), guard, g, c.Props)
	}
}

func (x *Exec) sectionCut(fc *funcCtx, n *node, c *Clause) {
	st := n.st
	env := x.localSpecEnv(st, n.guard, false)
	g := env.EvalBool(c.Expr)
	x.reportSpecErrors(env, x.TopName, c)
	if !n.cutProved {
		x.Oblige("cut", fmt.Sprintf("%s#%d: %s", c.Block, c.Ord, clauseLabel(c)), "", n.b.Instrs[0].Pos(), n.guard, g, c.Props)
	}
	prevSt := st.PrevCut
	if prevSt == nil {
		prevSt = x.Entry
	}
	// frame targets (evaluated before the havoc; prev() refers to the previous cut)
	type ftarget struct {
		mt modTarget
	}
	var fts []modTarget
	for _, fe := range c.Frames {
		mt, ok := x.evalModifies(&Clause{Expr: fe}, env)
		x.reportSpecErrors(env, x.TopName, c)
		if !ok || mt.kind != "range" {
			x.Oblige("spec-error", "cut frame target must be a slice range", "", 0, True, False, nil)
			continue
		}
		fts = append(fts, mt)
	}
	// havoc what was written since the previous cut
	keys := make([]string, 0, len(st.Written))
	for k := range st.Written {
		keys = append(keys, k)
	}
	sort.Strings(keys)
	for _, key := range keys {
		objs := st.Written[key]
		h, ok := st.Heap[key]
		if !ok {
			continue
		}
		whole := false
		for _, o := range objs {
			if o == nil {
				whole = true
			}
		}
		if whole {
			st.Heap[key] = x.VC.Fresh("cut."+key, h.S)
			delete(st.Shapes, key)
			continue
		}
		seen := map[*Term]bool{}
		for _, o := range objs {
			if seen[o] {
				continue
			}
			seen[o] = true
			// frame target for this object?
			var ft *modTarget
			for i := range fts {
				if fts[i].key == key && fts[i].sl.Arr == o {
					ft = &fts[i]
				}
			}
			if ft == nil || h.S.Elem.Kind != "Array" {
				st.noRecord++
				x.objSet(st, key, o, x.VC.Fresh("cutv."+key, h.S.Elem))
				st.noRecord--
				continue
			}
			before := x.objGet(prevSt, key, h.S.Elem, o)
			lo := BVBin("bvadd", ft.sl.Off, ft.lo)
			hi := BVBin("bvadd", ft.sl.Off, ft.hi)
			// every write to this component since the previous cut stays inside the declared range
			for _, w := range st.Writes {
				if w.epoch != st.CutEpoch || w.key != key {
					continue
				}
				if w.fresh && w.allocEpoch == w.epoch {
					continue // object allocated in this very section: nothing to preserve
				}
				var in *Term
				if w.lo == nil {
					in = False
				} else {
					in = And(BVCmp("bvule", lo, w.lo), BVCmp("bvule", w.lo, w.hi), BVCmp("bvule", w.hi, hi))
				}
				goal := in
				if w.obj != o {
					if w.obj == nil {
						goal = False
					} else {
						goal = Or(Not(Eq(w.obj, o)), in)
					}
				}
				x.Oblige("cutframe", fmt.Sprintf("%s#%d: %s", c.Block, c.Ord, types.ExprString(c.Frames[0])), "", n.b.Instrs[0].Pos(), w.guard, goal, c.Props)
			}
			na := x.VC.Fresh("cutv."+key, h.S.Elem)
			kk := x.VC.Fresh("k", bv64)
			inside2 := And(BVCmp("bvule", lo, kk), BVCmp("bvult", kk, hi))
			_ = before
			x.VC.AssumeForall([]*Term{kk}, n.guard, Implies(Not(inside2), Eq(Select(na, kk), Select(before, kk))), "cutframe")
			st.noRecord++
			x.objSet(st, key, o, na)
			st.noRecord--
		}
	}
	st.Written = map[string][]*Term{}
	st.CutEpoch++
	for _, ins := range n.b.Instrs {
		phi, ok := ins.(*ssa.Phi)
		if !ok {
			break
		}
		v := x.freshValue(phi.Type(), "cut."+phi.Comment, n.guard, st)
		n.env[phi] = v
		if phi.Comment != "" {
			st.Vars[phi.Comment] = v
		}
	}
	// guard collapsing: if this cut block post-dominates the previous cut block (or the entry), every execution that
	// passed the previous cut reaches this one unless it fails an obligation reported elsewhere (failed check, unwinding
	// assertion); the path condition accumulated inside the section is then irrelevant after the cut and the guard of
	// the previous cut is used from here on.
	if pg, ok := x.collapseGuard(fc, n, st); ok {
		n.guard = pg
		st.G = pg
	}
	env2 := x.localSpecEnv(st, n.guard, true)
	g2 := env2.EvalBool(c.Expr)
	x.reportSpecErrors(env2, x.TopName, c)
	x.VC.Assume(n.guard, g2, "cut")
	snap := st.Clone()
	snap.PrevCut = nil
	st.PrevCut = snap
	st.PrevCutGuard = n.guard
	st.PrevCutBlock = n.b
}

func (x *Exec) collapseGuard(fc *funcCtx, n *node, st *State) (*Term, bool) {
	var from *ssa.BasicBlock
	var g *Term
	if st.PrevCutBlock != nil {
		from, g = st.PrevCutBlock, st.PrevCutGuard
	} else {
		from, g = fc.fn.Blocks[0], fc.entryGuard
	}
	if g == nil || from == n.b {
		return nil, false
	}
	// does n.b post-dominate from? search for a path from `from` to an exit (return/panic/no successors) avoiding n.b
	seen := map[*ssa.BasicBlock]bool{n.b: true}
	work := []*ssa.BasicBlock{from}
	for len(work) > 0 {
		b := work[len(work)-1]
		work = work[:len(work)-1]
		if seen[b] {
			continue
		}
		seen[b] = true
		if len(b.Succs) == 0 {
			return nil, false
		}
		for _, s := range b.Succs {
			work = append(work, s)
		}
	}
	return g, true
}

var _ = types.Typ

// isRangeIndexPhi recognises the hidden index of `for i, x := range slice`: phi [-1, phi+1].
func isRangeIndexPhi(phi *ssa.Phi) bool {
	seenInit := false
	for _, e := range phi.Edges {
		if c, ok := e.(*ssa.Const); ok && c.Value != nil && c.Int64() == -1 {
			seenInit = true
			continue
		}
		b, ok := e.(*ssa.BinOp)
		if !ok || b.X != phi {
			return false
		}
		one, ok := b.Y.(*ssa.Const)
		if !ok || one.Value == nil || one.Int64() != 1 {
			return false
		}
	}
	return seenInit
}
