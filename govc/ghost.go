package govc

import (
	"fmt"
	"go/ast"
	"go/token"
	"go/types"
	"strings"

	"golang.org/x/tools/go/ssa"
)

// Ghost layer: lock invariants and the lockset discipline, sync.Once, ghost fields, observed-value flags.

// ---------- locks ----------

func (x *Exec) lockInvFor(owner, field string) *LockInv {
	for _, li := range x.P.Spec.Locks {
		if li.Type == owner && li.Mutex == field {
			return li
		}
	}
	return nil
}

// guardedBy returns the lock that guards heap component prefix key ("" if none).
func (x *Exec) guardedBy(key string) *LockInv {
	for _, li := range x.P.Spec.Locks {
		for _, g := range li.Guards {
			if g == key || strings.HasPrefix(key, g+".") {
				return li
			}
		}
	}
	return nil
}

func lockName(li *LockInv) string { return li.Type + "." + li.Mutex }

// mutexOf resolves the receiver of Lock/Unlock to (owner type, field name, owner object).
func (x *Exec) mutexOf(recv Value) (string, string, *Term, bool) {
	lv, ok := recv.(LocV)
	if !ok || lv.Kind != "field" {
		return "", "", nil, false
	}
	return lv.Outer, fieldPathName(lv.ST, lv.Path), lv.Obj, true
}

func (x *Exec) lockOp(n *node, recv Value, pos token.Pos, what string) {
	owner, field, obj, ok := x.mutexOf(recv)
	if !ok {
		// a mutex reached through a pointer (no declared invariant): only "is it held" is tracked, by its reference
		if sc, isS := recv.(Scalar); isS && sc.T.S == IntS {
			key := "*" + x.refKey(sc.T)
			if what == "Lock" {
				n.st.Locks[key] = true
			} else {
				delete(n.st.Locks, key)
			}
			return
		}
		if lv, isL := recv.(LocV); isL && lv.Obj != nil {
			key := "*" + x.refKey(lv.Obj)
			if what == "Lock" {
				n.st.Locks[key] = true
			} else {
				delete(n.st.Locks, key)
			}
			return
		}
		x.VC.Warnf("%s on a mutex the engine cannot identify in %s", what, x.TopName)
		return
	}
	x.lockOpNamed(n, owner, field, obj, pos, what)
}

// condWait: sync.Cond.Wait on a condition variable that is a field of the object owning a declared lock behaves as
// Unlock (the lock invariant is an obligation) followed by Lock (guarded state havocked, invariant assumed).
func (x *Exec) condWait(n *node, recv Value, pos token.Pos) bool {
	lv, ok := recv.(LocV)
	if !ok || lv.Kind != "field" {
		return false
	}
	for _, li := range x.P.Spec.Locks {
		name := lockName(li)
		k := strings.Index(name, ".")
		if k < 0 || name[:k] != lv.Outer || !n.st.Locks[name] {
			continue
		}
		x.VC.Assumptions["sync.Cond.Wait on a field of "+lv.Outer+" is used with "+name+" (cond.L is that mutex)"] = true
		x.lockOpNamed(n, lv.Outer, name[k+1:], lv.Obj, pos, "Unlock")
		x.lockOpNamed(n, lv.Outer, name[k+1:], lv.Obj, pos, "Lock")
		return true
	}
	return false
}

func (x *Exec) lockOpNamed(n *node, owner, field string, obj *Term, pos token.Pos, what string) {
	st := n.st
	li := x.lockInvFor(owner, field)
	name := owner + "." + field
	if li == nil {
		// a lock without a declared invariant protects nothing the contracts rely on
		if what == "Lock" {
			st.Locks[name] = true
		} else {
			delete(st.Locks, name)
		}
		return
	}
	switch what {
	case "Lock":
		if st.Locks[name] {
			x.Oblige("lockorder", name+" acquired while already held", fmt.Sprint(pos), pos, n.guard, False, li.Props)
		}
		st.Locks[name] = true
		delete(st.Locks, "?"+name)
		// other threads may have changed everything the lock guards — except objects this activation allocated
		// and has not published yet
		saved := map[string]map[*Term]*Term{}
		for _, g := range li.Guards {
			for key, t := range st.Heap {
				if key == g || strings.HasPrefix(key, g+".") {
					for o := range st.FreshObjs {
						if saved[key] == nil {
							saved[key] = map[*Term]*Term{}
						}
						saved[key][o] = x.VC.Def("keep", Select(t, o))
					}
				}
			}
		}
		for _, g := range li.Guards {
			x.havocPrefixQuiet(n, g)
		}
		for key, m := range saved {
			for o, v := range m {
				st.noRecord++
				x.objSet(st, key, o, v)
				st.noRecord--
			}
			delete(st.Written, key)
		}
		x.havocTokens(n, li)
		for _, c := range li.Assumed {
			env := x.lockEnv(st, n.guard, obj, owner, true)
			g := env.EvalBool(c.Expr)
			x.reportSpecErrors(env, "lockinv "+name, c)
			x.VC.Assume(n.guard, g, "lockinv-assumed:"+name)
			x.VC.Assumptions["assumed (not checked) under "+name+": "+c.Text] = true
		}
		for _, c := range li.Invs {
			env := x.lockEnv(st, n.guard, obj, owner, true)
			g := env.EvalBool(c.Expr)
			x.reportSpecErrors(env, "lockinv "+name, c)
			x.VC.Assume(n.guard, g, "lockinv:"+name)
		}
	case "Unlock":
		if !st.Locks[name] {
			x.Oblige("lockset", name+" released but not held", fmt.Sprint(pos), pos, n.guard, False, li.Props)
		}
		for _, c := range li.Invs {
			env := x.lockEnv(st, n.guard, obj, owner, false)
			g := env.EvalBool(c.Expr)
			x.reportSpecErrors(env, "lockinv "+name, c)
			props := c.Props
			if props == nil {
				props = li.Props
			}
			x.Oblige("lockinv", name+": "+clauseLabel(c), fmt.Sprint(pos), pos, n.guard, g, props)
		}
		delete(st.Locks, name)
		// what this thread knew about tokens it does not hold is stale as soon as the lock is released
		x.havocTokens(n, li)
	}
}

// havocTokens: ghost tokens shared under a lock. Anything may happen to tokens this thread does not hold
// (value 2 = held by the current thread) whenever the lock is not held; the set of tokens it holds, and the
// ghost fields that follow them, are unchanged.
func (x *Exec) havocTokens(n *node, li *LockInv) {
	st := n.st
	// ghost tokens shared under this lock: anything may have happened to tokens this thread does not hold
	// (value 2 = held by the current thread); the set of tokens it holds is unchanged
	for _, tk := range li.Tokens {
		key := "ghost." + tk
		srt := Arr(IntS, IntS)
		old := x.heap(st, key, srt)
		na := x.VC.Fresh("H.ghost."+tk, srt)
		o := x.VC.Fresh("to", IntS)
		x.VC.AssumeForall([]*Term{o}, n.guard, And(Eq(Eq(Select(old, o), IntLit(2)), Eq(Select(na, o), IntLit(2))),
			IntCmp(">=", Select(na, o), IntLit(0)), IntCmp("<=", Select(na, o), IntLit(2))), "token-stable")
		st.Heap[key] = na
		delete(st.Shapes, key)
		// ghost fields that follow the token: unchanged for objects whose token this thread holds
		for _, fl := range li.Followers[tk] {
			var skey string
			var es *Sort
			switch {
			case strings.HasPrefix(fl, "gv_"):
				skey, es = "ghost.v."+fl[3:], bv64
			case strings.HasPrefix(fl, "gb_"):
				skey, es = "ghost."+fl[3:], BoolS
			case strings.HasPrefix(fl, "gf_"):
				skey, es = "ghost."+fl[3:], IntS
			default:
				continue
			}
			ssrt := Arr(IntS, es)
			sold := x.heap(st, skey, ssrt)
			sna := x.VC.Fresh("H."+skey, ssrt)
			o2 := x.VC.Fresh("to", IntS)
			x.VC.AssumeForall([]*Term{o2}, n.guard, Implies(Eq(Select(old, o2), IntLit(2)), Eq(Select(sna, o2), Select(sold, o2))), "follower-stable")
			st.Heap[skey] = sna
			delete(st.Shapes, skey)
		}
	}
}

// lockEnv evaluates a lock invariant with `self` bound to the object that owns the mutex.
func (x *Exec) lockEnv(st *State, guard *Term, obj *Term, owner string, assume bool) *SpecEnv {
	errs := []string{}
	e := &SpecEnv{x: x, vars: map[string]Value{}, st: st, old: x.Entry, guard: guard, assume: assume, errs: &errs}
	if t := x.P.LookupType(owner); t != nil {
		e.vars["self"] = Scalar{T: obj, Ty: types.NewPointer(t)}
	}
	return e
}

// havocPrefixQuiet havocs a guarded component without recording it as a write of this activation.
func (x *Exec) havocPrefixQuiet(n *node, k string) {
	n.st.noRecord++
	x.havocPrefix(n, k)
	n.st.noRecord--
	// havocPrefix uses setHeap which records in Written; remove those marks (not a write of this thread)
	for key := range n.st.Written {
		if key == k || strings.HasPrefix(key, k+".") {
			delete(n.st.Written, key)
		}
	}
}

// guardField: a guarded field may only be accessed while its lock is held (objects allocated by this
// activation and not yet published are exempt).
func (x *Exec) guardField(n *node, owner, field string, obj *Term, pos token.Pos, write bool) {
	li := x.guardedBy(owner + "." + field)
	if li == nil {
		return
	}
	name := lockName(li)
	if n.st.Locks[name] {
		return
	}
	if n.st.FreshObjs[obj] > 0 {
		return
	}
	if x.holdsByContract(name) {
		return
	}
	txt := x.srcExpr(pos, "selector")
	x.Oblige("lockset", fmt.Sprintf("%s.%s accessed without %s (%s)", owner, field, name, txt), fmt.Sprint(pos), pos, n.guard, False, li.Props)
}

// holdsByContract: the function under verification declares `requires holds(Lock)`.
func (x *Exec) holdsByContract(name string) bool {
	if x.Case == nil {
		return false
	}
	for _, c := range x.Case.Clauses {
		if c.Kind == "requires" && strings.Contains(c.Text, "holds("+strings.ReplaceAll(name, ".", "_")+")") {
			return true
		}
	}
	return false
}

func (x *Exec) guardMap(n *node, mv ssa.Value, m *Term, pos token.Pos, write bool) {
	if mt, ok := mv.Type().Underlying().(*types.Map); ok {
		x.guardMapByType(n, mt, m, pos, write)
	}
}

func (x *Exec) guardMapByType(n *node, mt *types.Map, m *Term, pos token.Pos, write bool) {
	li := x.guardedBy(mapKeyName(mt))
	if li == nil {
		return
	}
	name := lockName(li)
	if n.st.Locks[name] || n.st.FreshObjs[m] > 0 || x.holdsByContract(name) {
		return
	}
	x.Oblige("lockset", fmt.Sprintf("%s accessed without %s", mapKeyName(mt), name), fmt.Sprint(pos), pos, n.guard, False, li.Props)
}

// token tables: storing a value in the table requires the thread's token (2) for it and turns it into a table
// token (1); deleting a present key under the lock hands the table token of the removed value to the deleting thread.
func (x *Exec) ghostMapUpdate(n *node, mt *types.Map, mv ssa.Value, m, k *Term, v Value) {
	tk, ok := x.P.Spec.TokenTables[x.dynKeyAny(mv)]
	if !ok {
		return
	}
	slot := x.P.Spec.TokenSlots[x.dynKeyAny(mv)]
	sc, isS := v.(Scalar)
	if !isS {
		return
	}
	key := "ghost." + tk
	cur := x.objGet(n.st, key, IntS, sc.T)
	internal := x.objGet(n.st, "ghost.internal", BoolS, sc.T)
	x.Oblige("token", "store into "+x.dynKeyAny(mv)+" needs the token of the stored value", fmt.Sprint(x.curPos), x.curPos, n.guard, Or(Eq(cur, IntLit(2)), internal), x.P.Spec.FieldProps[x.dynKeyAny(mv)])
	n.st.noRecord++
	x.objSet(n.st, key, sc.T, Ite(internal, cur, IntLit(1)))
	if slot != "" {
		x.objSet(n.st, "ghost.v."+slot, sc.T, Ite(internal, x.objGet(n.st, "ghost.v."+slot, k.S, sc.T), k))
	}
	n.st.noRecord--
}

func (x *Exec) ghostMapDelete(n *node, mt *types.Map, m, k, was *Term) {
	if x.curInstr == nil {
		return
	}
	call, ok := x.curInstr.(*ssa.Call)
	if !ok || len(call.Call.Args) == 0 {
		return
	}
	tk, ok := x.P.Spec.TokenTables[x.dynKeyAny(call.Call.Args[0])]
	if !ok {
		return
	}
	slot := x.P.Spec.TokenSlots[x.dynKeyAny(call.Call.Args[0])]
	// value that was stored under the key (state before the delete is gone; use the val component, unchanged by delete)
	name, ks := x.mapComps(mt)
	var oldv *Term
	for _, c := range shapeComps(mt.Elem()) {
		if c.Suffix == "" {
			oldv = Select(x.objGet(n.st, name+".val", Arr(ks, c.S), m), k)
		}
	}
	if oldv == nil {
		return
	}
	oldv = x.VC.Def("deleted", oldv)
	key := "ghost." + tk
	cur := x.objGet(n.st, key, IntS, oldv)
	n.st.noRecord++
	mine := And(was, Eq(cur, IntLit(1)), Not(x.objGet(n.st, "ghost.internal", BoolS, oldv)))
	if slot != "" {
		// only the entry the table token belongs to hands it over
		mine = And(mine, Eq(x.objGet(n.st, "ghost.v."+slot, k.S, oldv), k))
	}
	x.objSet(n.st, key, oldv, Ite(mine, IntLit(2), cur))
	n.st.noRecord--
}

func (x *Exec) ghostRecv(n *node, ch Value, v Value, i *ssa.UnOp) {}

func (x *Exec) ghostSend(n *node, ch, v Value, pos token.Pos) {}

func (x *Exec) ghostSelectRecv(n *node, ch Value, v Value, chosen *Term, s *ssa.SelectState) {}

func (x *Exec) ghostSelectSend(n *node, ch, v Value, chosen *Term, s *ssa.SelectState) {}

func (x *Exec) ghostSpawn(fc *funcCtx, n *node, ins ssa.Instruction, c *ssa.CallCommon) {
	x.VC.Assumptions["go statements: the spawned function is verified separately under its own contract; the spawner continues without it"] = true
	// spawn rule: the precondition of a contracted callee is an obligation of the spawner (locks are not inherited)
	callee, ok := c.Value.(*ssa.Function)
	if !ok {
		return
	}
	name := x.P.SpecName(callee)
	fs, ok := x.P.Spec.Funcs[name]
	if !ok || fs.Inline {
		return
	}
	var args []Value
	for _, a := range c.Args {
		args = append(args, x.operandIn(n.env, a, n.st))
	}
	x.atCallAssertions(fc, n, ins, c, args)
	st := n.st.Clone()
	st.Locks = map[string]bool{}
	env := x.specEnvFor(fs, callee, args, st, n.guard)
	env.old = st
	for _, cl := range fs.CallCase().Clauses {
		if cl.Kind != "requires" {
			continue
		}
		g := env.EvalBool(cl.Expr)
		x.reportSpecErrors(env, name, cl)
		x.Oblige("pre", clauseLabel(cl)+" @go "+name, fmt.Sprint(ins.Pos()), ins.Pos(), n.guard, g, cl.Props)
	}
}

func (x *Exec) ghostAfterCall(n *node, fs *FuncSpec, name string, args, results []Value) {}

// ---------- ghost fields ----------

// ghostField reads ghost field name of object obj: heap component "ghost.<name>".
func (x *Exec) ghostField(st *State, name string, obj *Term, s *Sort) *Term {
	return x.objGet(st, "ghost."+name, s, obj)
}

// ghostCall evaluates ghost functions in contracts:
//
//	gf_<name>(obj)  ghost field of Int sort (addresses: sid of the string), gb_<name>(obj) Bool ghost field,
//	holds(Lock_name) lock held.
func (e *SpecEnv) ghostCall(name string, n *ast.CallExpr) (Value, bool) {
	x := e.x
	ref := func(v Value) *Term {
		switch vv := v.(type) {
		case Scalar:
			return vv.T
		case IfaceV:
			return vv.Val
		case LocV:
			return vv.Obj
		}
		return nil
	}
	switch {
	case strings.HasPrefix(name, "gg_") && len(n.Args) == 0:
		return Scalar{T: x.ghostField(e.st, "global."+name[3:], IntLit(0), IntS), Ty: nil}, true
	case strings.HasPrefix(name, "ggv_") && len(n.Args) == 0:
		return Scalar{T: x.ghostField(e.st, "globalv."+name[4:], IntLit(0), bv64), Ty: tyUint64}, true
	case strings.HasPrefix(name, "ggb_") && len(n.Args) == 0:
		return Scalar{T: x.ghostField(e.st, "global."+name[4:], IntLit(0), BoolS), Ty: tyBool}, true
	case strings.HasPrefix(name, "gf_") && len(n.Args) == 1:
		r := ref(e.eval(n.Args[0]))
		if r == nil {
			e.errorf("%s: object expected", name)
			return UnknownV{}, true
		}
		return Scalar{T: x.ghostField(e.st, name[3:], r, IntS), Ty: nil}, true
	case strings.HasPrefix(name, "gv_") && len(n.Args) == 1:
		r := ref(e.eval(n.Args[0]))
		if r == nil {
			e.errorf("%s: object expected", name)
			return UnknownV{}, true
		}
		return Scalar{T: x.ghostField(e.st, "v."+name[3:], r, bv64), Ty: tyUint64}, true
	case strings.HasPrefix(name, "gb_") && len(n.Args) == 1:
		r := ref(e.eval(n.Args[0]))
		if r == nil {
			e.errorf("%s: object expected", name)
			return UnknownV{}, true
		}
		return Scalar{T: x.ghostField(e.st, name[3:], r, BoolS), Ty: tyBool}, true
	case name == "holds" && len(n.Args) == 1:
		if id, ok := n.Args[0].(*ast.Ident); ok {
			nm := strings.Replace(id.Name, "_", ".", 1)
			if e.st.Locks[nm] || x.holdsByContract(nm) {
				return Scalar{T: True, Ty: tyBool}, true
			}
			return Scalar{T: False, Ty: tyBool}, true
		}
	case name == "holdsptr" && len(n.Args) == 1:
		// holdsptr(p): the mutex p points to was locked by this activation and not yet unlocked
		r := ref(e.eval(n.Args[0]))
		if r != nil {
			return Scalar{T: boolTerm(e.st.Locks["*"+x.refKey(r)]), Ty: tyBool}, true
		}
	case name == "onceDone" && len(n.Args) == 1:
		r := ref(e.eval(n.Args[0]))
		if r != nil {
			return Scalar{T: x.objGet(e.st, "Once.done", BoolS, r), Ty: tyBool}, true
		}
	}
	return nil, false
}

func (x *Exec) setupGhostEntry(st *State) {
	// "observed during this activation" flags start false
	for _, flag := range x.P.Spec.Observes {
		s := Arr(IntS, BoolS)
		st.Heap["ghost."+flag] = mk("(as const "+s.String()+")", s, False)
	}
	// locks the contract says are held on entry
	if x.Case != nil {
		for _, li := range x.P.Spec.Locks {
			if x.holdsByContract(lockName(li)) {
				st.Locks[lockName(li)] = true
			}
		}
	}
}

func (x *Exec) ghostExit(out *State, rg *Term) {
	// every lock acquired by the function is released on return (unless the contract says it is held)
	for name, held := range out.Locks {
		if !held || strings.HasPrefix(name, "?") {
			if strings.HasPrefix(name, "?") {
				x.Oblige("lockset", strings.TrimPrefix(name, "?")+" held on some return paths only", "", x.Top.Pos(), rg, False, nil)
			}
			continue
		}
		if x.holdsByContract(name) {
			continue
		}
		x.Oblige("lockset", name+" still held at return", "", x.Top.Pos(), rg, False, nil)
	}
}

// applyObserve: `observe Type.field as flag` sets ghost flag[obj] when the field is read as true under its lock.
func (x *Exec) applyObserve(n *node, owner, field string, obj *Term, v Value) {
	key := owner + "." + field
	flag, ok := x.P.Spec.Observes[key]
	if !ok {
		return
	}
	sc, isB := v.(Scalar)
	if !isB || sc.T.S != BoolS {
		return
	}
	cur := x.ghostField(n.st, flag, obj, BoolS)
	n.st.noRecord++
	x.objSet(n.st, "ghost."+flag, obj, Or(cur, sc.T))
	n.st.noRecord--
}

func boolTerm(b bool) *Term {
	if b {
		return True
	}
	return False
}

// refKey names a reference term by its definition (two loads of the same location in the same heap agree).
func (x *Exec) refKey(t *Term) string {
	for i := 0; i < 8 && t.Op == "const"; i++ {
		di, ok := x.VC.defs[t.Name]
		if !ok {
			break
		}
		t = x.VC.Facts[di].Body.Args[1]
	}
	return t.String()
}
