package govc

import (
	"go/ast"
	"go/token"
	"go/types"

	"golang.org/x/tools/go/ssa"
)

// Ghost layer: lockset discipline, lock invariants, resources. Filled in incrementally.

func (x *Exec) guardField(n *node, owner, field string, obj *Term, pos token.Pos, write bool) {}

func (x *Exec) guardMap(n *node, mv ssa.Value, m *Term, pos token.Pos, write bool) {}

func (x *Exec) guardMapByType(n *node, mt *types.Map, m *Term, pos token.Pos, write bool) {}

func (x *Exec) ghostMapUpdate(n *node, mt *types.Map, mv ssa.Value, m, k *Term, v Value) {}

func (x *Exec) ghostMapDelete(n *node, mt *types.Map, m, k, was *Term) {}

func (x *Exec) ghostRecv(n *node, ch Value, v Value, i *ssa.UnOp) {}

func (x *Exec) ghostSend(n *node, ch, v Value, pos token.Pos) {}

func (x *Exec) ghostSelectRecv(n *node, ch Value, v Value, chosen *Term, s *ssa.SelectState) {}

func (x *Exec) ghostSelectSend(n *node, ch, v Value, chosen *Term, s *ssa.SelectState) {}

func (x *Exec) ghostSpawn(fc *funcCtx, n *node, ins ssa.Instruction, c *ssa.CallCommon) {
	x.VC.Warnf("%s: go statement: spawned code is verified separately; no effect modelled here", x.TopName)
}

func (x *Exec) ghostAfterCall(n *node, fs *FuncSpec, name string, args, results []Value) {}

// ghostCall evaluates ghost functions in contracts (tok(c), own(x), ...).
func (e *SpecEnv) ghostCall(name string, n *ast.CallExpr) (Value, bool) {
	return nil, false
}

func (x *Exec) setupGhostEntry(st *State) {}

func (x *Exec) ghostExit(out *State, rg *Term) {}
