package govc

import (
	"context"
	"encoding/json"
	"fmt"
	"go/types"
	"os"
	"os/exec"
	"path/filepath"
	"strconv"
	"strings"
	"time"
)

// panicKinds are obligation kinds whose failure means "the real code panics on this input".
var panicKinds = map[string]bool{"bounds": true, "slice": true, "nil": true, "makeslice": true, "typeassert": true, "div": true, "panic": true, "pre": true, "unwind": false}

// inputTerm is one term whose model value is needed to rebuild a concrete input.
type inputTerm struct {
	key  string
	term *Term
}

type sliceInput struct {
	prefix             string
	arr, off, len, cap *Term
	inner              *Term // contents at entry (Array BV64 BV8)
	str                bool
}

// replayInputs enumerates the scalar terms and byte slices that make up the inputs of the top function.
func (x *Exec) replayInputs() ([]inputTerm, []sliceInput, bool) {
	var scalars []inputTerm
	var slices []sliceInput
	ok := true
	var addValue func(prefix string, v Value, ty types.Type, depth int)
	addSlice := func(prefix string, sl SliceV) {
		var elem types.Type = tyByte
		if !sl.Str {
			if st, isS := sl.Ty.Underlying().(*types.Slice); isS {
				elem = st.Elem()
			}
		}
		if b, isB := elem.Underlying().(*types.Basic); !isB || b.Kind() != types.Uint8 {
			ok = false
			return
		}
		si := sliceInput{prefix: prefix, arr: sl.Arr, off: sl.Off, len: sl.Len, cap: sl.Cap, str: sl.Str}
		si.inner = x.objGet(x.Entry, elemKey(tyByte), Arr(bv64, BV(8)), sl.Arr)
		slices = append(slices, si)
	}
	addValue = func(prefix string, v Value, ty types.Type, depth int) {
		switch vv := v.(type) {
		case Scalar:
			if pt, isPtr := ty.Underlying().(*types.Pointer); isPtr {
				scalars = append(scalars, inputTerm{prefix + ".ref", vv.T})
				if stt, isStruct := pt.Elem().Underlying().(*types.Struct); isStruct && depth < 2 {
					if op, _ := isOpaque(pt.Elem()); !op {
						for i := 0; i < stt.NumFields(); i++ {
							f := stt.Field(i)
							fv := x.loadFieldQuiet(x.Entry, typeName(pt.Elem()), f.Name(), f.Type(), vv.T)
							addValue(prefix+"."+f.Name(), fv, f.Type(), depth+1)
						}
					}
				}
				return
			}
			if vv.T.S.Kind == "BV" || vv.T.S == BoolS {
				scalars = append(scalars, inputTerm{prefix, vv.T})
				return
			}
			scalars = append(scalars, inputTerm{prefix, vv.T})
		case SliceV:
			addSlice(prefix, vv)
		case LocV:
			if vv.Kind == "box" {
				elem := vv.Ty.Underlying().(*types.Pointer).Elem()
				fv := x.loadFieldQuiet(x.Entry, "Cell", typeName(elem), elem, vv.Obj)
				addValue(prefix+".*", fv, elem, depth+1)
			}
		case IfaceV:
			scalars = append(scalars, inputTerm{prefix + ".tag", vv.Tag})
		default:
			ok = false
		}
	}
	for _, p := range x.Top.Params {
		addValue(p.Name(), x.params[p.Name()], p.Type(), 0)
	}
	return scalars, slices, ok
}

// TryReplay extracts a model of the failing query, rebuilds concrete inputs and runs the real function.
// Returns the replay file path and whether the failure was confirmed on the real code.
func TryReplay(cfg CheckConfig, p *Program, r *OblResult) (string, bool) {
	o := r.failed
	if o == nil || o.x == nil || r.q == nil {
		return writeReplay(cfg, r.ID, "obligation failed (sat); no model extraction possible", r.query, r), false
	}
	x := o.x
	scalars, slices, ok := x.replayInputs()
	model, merr := extractModel(r.q, scalars, slices)
	if merr != nil {
		return writeReplay(cfg, r.ID, "obligation failed (sat); model extraction: "+merr.Error(), r.query, r), false
	}
	var mb strings.Builder
	for _, it := range scalars {
		fmt.Fprintf(&mb, "%s = %s\n", it.key, model.scalar[it.key])
	}
	for _, si := range slices {
		fmt.Fprintf(&mb, "%s: len=%d cap=%d bytes=%x\n", si.prefix, model.lens[si.prefix], model.caps[si.prefix], model.bytes[si.prefix])
	}
	r.model = mb.String()
	if !ok || !panicKinds[r.Kind] || x.inlineTop() {
		return writeReplay(cfg, r.ID, "obligation failed (sat, model attached); no executable oracle for this obligation kind", r.query, r), false
	}
	src, err := x.replaySource(model)
	if err != nil {
		return writeReplay(cfg, r.ID, "obligation failed (sat, model attached); replay not generated: "+err.Error(), r.query, r), false
	}
	dir := filepath.Join(cfg.VerifDir, "replays", cfg.Property)
	os.MkdirAll(dir, 0o755)
	name := sanitize(r.ID)
	if len(name) > 150 {
		name = name[:150]
	}
	gofile := filepath.Join(dir, name+"_test.go")
	header := fmt.Sprintf("// Replay of a verifier counterexample.\n// property: %s\n// obligation: %s\n// position: %s\n// verifier model:\n//   %s\n// run: cd /repo && go test -overlay <overlay.json mapping /repo/zz_govc_replay_test.go to this file> -vet=off -run '^TestGovcReplay$' .\n",
		cfg.Property, r.ID, r.Pos, strings.ReplaceAll(strings.TrimSpace(r.model), "\n", "\n//   "))
	os.WriteFile(gofile, []byte(header+src), 0o644)
	out, failed := runReplay(cfg.Repo, gofile)
	os.WriteFile(filepath.Join(dir, name+".out.txt"), []byte(out), 0o644)
	if failed {
		return gofile, true
	}
	// the concrete run did not fail: keep the model, report without failing input
	writeReplay(cfg, r.ID, "obligation failed (sat) but the concrete replay did not fail; output in "+name+".out.txt", r.query, r)
	return gofile, false
}

func (x *Exec) inlineTop() bool {
	pk := x.Top.Pkg
	return pk == nil || pk.Pkg.Path() != RepoPkgPath
}

type modelVals struct {
	scalar map[string]string
	lens   map[string]int
	caps   map[string]int
	bytes  map[string][]byte
}

func bvValue(s string) (uint64, bool) {
	s = strings.TrimSpace(s)
	if strings.HasPrefix(s, "#x") {
		v, err := strconv.ParseUint(s[2:], 16, 64)
		return v, err == nil
	}
	if strings.HasPrefix(s, "#b") {
		v, err := strconv.ParseUint(s[2:], 2, 64)
		return v, err == nil
	}
	if v, err := strconv.ParseUint(s, 10, 64); err == nil {
		return v, true
	}
	return 0, false
}

// extractModel finds a (small) model of the failing query with trusted solvers.
func extractModel(q *Query, scalars []inputTerm, slices []sliceInput) (*modelVals, error) {
	declared := map[string]bool{}
	for _, ln := range strings.Split(q.Header, "\n") {
		if strings.HasPrefix(ln, "(declare-fun |") {
			if k := strings.Index(ln[14:], "|"); k >= 0 {
				declared[ln[14:14+k]] = true
			}
		}
	}
	usable := func(t *Term) bool {
		okk := true
		Walk(t, map[*Term]bool{}, func(y *Term) {
			if y.Op == "const" && !declared[y.Name] {
				okk = false
			}
		})
		return okk
	}
	var sizeCons strings.Builder
	for _, si := range slices {
		for _, t := range []*Term{si.len, si.cap} {
			if t != nil && usable(t) {
				fmt.Fprintf(&sizeCons, "(assert (bvule %s #x0000000000000400))\n", TermText(t))
			}
		}
	}
	ctx, cancel := context.WithTimeout(context.Background(), 90*time.Second)
	defer cancel()
	var fixed string
	tryGuide := func(withSize bool) bool {
		var b strings.Builder
		b.WriteString("(set-option :produce-models true)\n")
		b.WriteString(q.Text)
		if withSize {
			b.WriteString(sizeCons.String())
		}
		b.WriteString("(check-sat)\n")
		if len(q.Scalars) > 0 {
			b.WriteString("(get-value (")
			for _, s := range q.Scalars {
				fmt.Fprintf(&b, "|%s| ", s)
			}
			b.WriteString("))\n")
		}
		f := newQueryFile(b.String())
		st, out := runSolver(ctx, solvers[guideSolver], f)
		if st != "sat" {
			return false
		}
		idx := strings.Index(out, "((")
		if idx < 0 {
			return false
		}
		var fb strings.Builder
		for _, kv := range parseGetValue(out[idx:]) {
			fmt.Fprintf(&fb, "(assert (= %s %s))\n", kv[0], kv[1])
		}
		fixed = fb.String()
		return true
	}
	withSize := true
	if !tryGuide(true) {
		withSize = false
		if !tryGuide(false) {
			fixed = ""
			withSize = true
		}
	}
	// trusted run 1: scalars
	var terms []string
	var keys []string
	for _, it := range scalars {
		if usable(it.term) {
			terms = append(terms, TermText(it.term))
			keys = append(keys, it.key)
		}
	}
	for _, si := range slices {
		for suffix, t := range map[string]*Term{".len": si.len, ".cap": si.cap} {
			if t != nil && usable(t) {
				terms = append(terms, TermText(t))
				keys = append(keys, si.prefix+suffix)
			}
		}
	}
	base := "(set-option :produce-models true)\n" + q.Text
	if withSize {
		base += sizeCons.String()
	}
	base += fixed
	run := func(extraTerms []string) (string, []string, error) {
		var b strings.Builder
		b.WriteString(base)
		b.WriteString("(check-sat)\n")
		if len(extraTerms) > 0 {
			b.WriteString("(get-value (" + strings.Join(extraTerms, " ") + "))\n")
		}
		f := newQueryFile(b.String())
		st, out := runSolver(ctx, solvers[1], f)
		if st != "sat" {
			return st, nil, fmt.Errorf("trusted solver answered %s on the guided model query", st)
		}
		idx := strings.Index(out, "((")
		var vals []string
		if idx >= 0 {
			for _, kv := range parseGetValue(out[idx:]) {
				vals = append(vals, kv[1])
			}
		}
		return st, vals, nil
	}
	_, vals, err := run(terms)
	if err != nil {
		return nil, err
	}
	m := &modelVals{scalar: map[string]string{}, lens: map[string]int{}, caps: map[string]int{}, bytes: map[string][]byte{}}
	for i, k := range keys {
		if i < len(vals) {
			m.scalar[k] = vals[i]
		}
	}
	// run 2: byte contents
	var cellTerms []string
	type cellRef struct {
		prefix string
		i      int
	}
	var cells []cellRef
	for _, si := range slices {
		ln, _ := bvValue(m.scalar[si.prefix+".len"])
		cp, okc := bvValue(m.scalar[si.prefix+".cap"])
		if !okc || si.str {
			cp = ln
		}
		if ln > 4096 || cp > 4096 {
			return nil, fmt.Errorf("model needs a slice of %d/%d bytes (too large to replay)", ln, cp)
		}
		m.lens[si.prefix] = int(ln)
		m.caps[si.prefix] = int(cp)
		m.bytes[si.prefix] = make([]byte, cp)
		if !usable(si.inner) || !usable(si.off) {
			continue
		}
		for i := 0; i < int(cp); i++ {
			cellTerms = append(cellTerms, fmt.Sprintf("(select %s (bvadd %s #x%016x))", TermText(si.inner), TermText(si.off), i))
			cells = append(cells, cellRef{si.prefix, i})
		}
	}
	if len(cellTerms) > 0 {
		_, cvals, err := run(cellTerms)
		if err != nil {
			return nil, err
		}
		for i, c := range cells {
			if i < len(cvals) {
				v, _ := bvValue(cvals[i])
				m.bytes[c.prefix][c.i] = byte(v)
			}
		}
	}
	return m, nil
}

// replaySource generates a Go test (package rpc) that calls the real function on the model inputs.
func (x *Exec) replaySource(m *modelVals) (string, error) {
	fn := x.Top
	var b strings.Builder
	b.WriteString("\npackage rpc\n\nimport \"testing\"\n\nfunc TestGovcReplay(t *testing.T) {\n")
	b.WriteString("\tdefer func() {\n\t\tif r := recover(); r != nil {\n\t\t\tt.Fatalf(\"GOVC-REPLAY-PANIC: %v\", r)\n\t\t}\n\t}()\n")
	mkBytes := func(prefix string) string {
		return fmt.Sprintf("govcBytes(%d, %d, %q)", m.lens[prefix], m.caps[prefix], string(m.bytes[prefix]))
	}
	var args []string
	for i, p := range fn.Params {
		name := fmt.Sprintf("a%d", i)
		expr, err := x.goValue(p.Name(), p.Type(), m, mkBytes, 0)
		if err != nil {
			return "", err
		}
		fmt.Fprintf(&b, "\t%s := %s\n", name, expr)
		args = append(args, name)
	}
	call := ""
	if fn.Signature.Recv() != nil {
		call = fmt.Sprintf("%s.%s(%s)", args[0], fn.Name(), strings.Join(args[1:], ", "))
	} else {
		if fn.Parent() != nil {
			return "", fmt.Errorf("closure")
		}
		call = fmt.Sprintf("%s(%s)", fn.Name(), strings.Join(args, ", "))
	}
	fmt.Fprintf(&b, "\t%s\n}\n\n", call)
	b.WriteString("func govcBytes(n, c int, s string) []byte {\n\tif c == 0 && n == 0 {\n\t\treturn nil\n\t}\n\tb := make([]byte, c)\n\tcopy(b, s)\n\treturn b[:n]\n}\n")
	return b.String(), nil
}

func (x *Exec) goValue(prefix string, ty types.Type, m *modelVals, mkBytes func(string) string, depth int) (string, error) {
	qual := func(p *types.Package) string {
		if p.Path() == RepoPkgPath {
			return ""
		}
		return p.Name()
	}
	switch u := ty.Underlying().(type) {
	case *types.Basic:
		switch {
		case u.Info()&types.IsString != 0:
			return fmt.Sprintf("string(%s)", mkBytes(prefix)), nil
		case u.Info()&types.IsInteger != 0:
			v, _ := bvValue(m.scalar[prefix])
			if u.Info()&types.IsUnsigned == 0 {
				w := uint(sortOfBasic(u).W)
				sv := int64(v<<(64-w)) >> (64 - w)
				return fmt.Sprintf("%s(%d)", types.TypeString(ty, qual), sv), nil
			}
			return fmt.Sprintf("%s(%d)", types.TypeString(ty, qual), v), nil
		case u.Info()&types.IsBoolean != 0:
			return m.scalar[prefix], nil
		}
	case *types.Slice:
		if b, ok := u.Elem().Underlying().(*types.Basic); ok && b.Kind() == types.Uint8 {
			return mkBytes(prefix), nil
		}
	case *types.Pointer:
		if m.scalar[prefix+".ref"] == "0" {
			return "(" + types.TypeString(ty, qual) + ")(nil)", nil
		}
		if stt, ok := u.Elem().Underlying().(*types.Struct); ok && depth < 2 {
			var fs []string
			for i := 0; i < stt.NumFields(); i++ {
				f := stt.Field(i)
				fv, err := x.goValue(prefix+"."+f.Name(), f.Type(), m, mkBytes, depth+1)
				if err != nil {
					// unsupported field: leave zero
					continue
				}
				fs = append(fs, f.Name()+": "+fv)
			}
			return "&" + types.TypeString(u.Elem(), qual) + "{" + strings.Join(fs, ", ") + "}", nil
		}
		if _, ok := u.Elem().Underlying().(*types.Basic); ok {
			inner, err := x.goValue(prefix+".*", u.Elem(), m, mkBytes, depth+1)
			if err != nil {
				return "", err
			}
			return fmt.Sprintf("func() %s { v := %s; return &v }()", types.TypeString(ty, qual), inner), nil
		}
	}
	return "", fmt.Errorf("unsupported input type %s", ty)
}

// runReplay runs the generated test against the real code through an overlay (nothing is written into the repo).
func runReplay(repo, gofile string) (string, bool) {
	ovDir, _ := os.MkdirTemp(TmpDir(), "ov")
	ov := map[string]map[string]string{"Replace": {filepath.Join(repo, "zz_govc_replay_test.go"): gofile}}
	data, _ := json.Marshal(ov)
	ovFile := filepath.Join(ovDir, "overlay.json")
	os.WriteFile(ovFile, data, 0o644)
	ctx, cancel := context.WithTimeout(context.Background(), 180*time.Second)
	defer cancel()
	cmd := exec.CommandContext(ctx, "go", "test", "-overlay", ovFile, "-vet=off", "-count=1", "-timeout", "60s", "-run", "^TestGovcReplay$", ".")
	cmd.Dir = repo
	cmd.Env = append(os.Environ(), "GOFLAGS=-mod=mod", "GOPROXY=off", "GOSUMDB=off", "GOTOOLCHAIN=local")
	out, err := cmd.CombinedOutput()
	s := string(out)
	failed := err != nil && (strings.Contains(s, "GOVC-REPLAY-PANIC") || strings.Contains(s, "panic:"))
	return s, failed
}
