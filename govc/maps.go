package govc

import (
	"fmt"
	"go/token"
	"go/types"

	"golang.org/x/tools/go/ssa"
)

// ---------- maps ----------

func mapKeySort(kt types.Type) *Sort {
	switch u := kt.Underlying().(type) {
	case *types.Basic:
		if u.Info()&types.IsString != 0 {
			return IntS
		}
		return sortOfBasic(u)
	}
	return IntS
}

// mapKeyTerm converts a key value to its SMT key term.
func (x *Exec) mapKeyTerm(k Value, kt types.Type, e *SpecEnv) *Term {
	switch v := k.(type) {
	case Scalar:
		return v.T
	case SliceV:
		if v.Str {
			t := x.sid(v)
			x.VC.Assume(True, Eq(Eq(t, IntLit(0)), Eq(v.Len, BVLit(0, 64))), "sid-empty")
			return t
		}
	case IfaceV:
		return v.Val
	case UConst:
		if e != nil {
			if s, ok := e.constAs(v, Scalar{T: zeroTerm(mapKeySort(kt)), Ty: kt}).(Scalar); ok {
				return s.T
			}
		}
	case ClosureV:
		return v.Ref
	}
	return x.VC.Fresh("unkkey", mapKeySort(kt))
}

func (x *Exec) mapComps(mt *types.Map) (string, *Sort) {
	return mapKeyName(mt), mapKeySort(mt.Key())
}

func (x *Exec) mapHasQuiet(st *State, mt *types.Map, m, k *Term) *Term {
	name, ks := x.mapComps(mt)
	return And(Not(Eq(m, IntLit(0))), Select(x.objGet(st, name+".has", Arr(ks, BoolS), m), k))
}

func (x *Exec) mapLenQuiet(st *State, mt *types.Map, m *Term) *Term {
	name, _ := x.mapComps(mt)
	return Ite(Eq(m, IntLit(0)), BVLit(0, 64), x.objGet(st, name+".len", bv64, m))
}

func (x *Exec) mapLoadQuiet(st *State, mt *types.Map, m, k *Term) Value {
	name, ks := x.mapComps(mt)
	has := x.mapHasQuiet(st, mt, m, k)
	v := fromComps(mt.Elem(), func(suffix string, s *Sort) *Term {
		return Ite(has, Select(x.objGet(st, name+".val"+suffix, Arr(ks, s), m), k), zeroTerm(s))
	})
	x.quietTypeInv(v, st)
	return v
}

func (x *Exec) initMap(n *node, t types.Type, r *Term) {
	st := n.st
	mt := t.Underlying().(*types.Map)
	name, ks := x.mapComps(mt)
	hs := Arr(ks, BoolS)
	empty := mk("(as const "+hs.String()+")", hs, False)
	x.objSet(st, name+".has", r, empty)
	x.objSet(st, name+".len", r, BVLit(0, 64))
}

func (x *Exec) mapUpdate(n *node, m, k, v Value, i *ssa.MapUpdate) {
	st := n.st
	ms, ok := m.(Scalar)
	mt, isMap := i.Map.Type().Underlying().(*types.Map)
	if !ok || !isMap {
		x.VC.Warnf("MapUpdate on unsupported value in %s", x.TopName)
		return
	}
	x.nilCheck(n, ms.T, i.Pos(), "map")
	x.guardMap(n, i.Map, ms.T, i.Pos(), true)
	name, ks := x.mapComps(mt)
	kt := x.mapKeyTerm(k, mt.Key(), nil)
	hasIn := x.objGet(st, name+".has", Arr(ks, BoolS), ms.T)
	was := x.VC.Def("map.was", Select(hasIn, kt))
	x.VC.Assume(n.guard, Implies(was, BVCmp("bvsge", x.objGet(st, name+".len", bv64, ms.T), BVLit(1, 64))), "map-len-has")
	x.objSet(st, name+".has", ms.T, Store(hasIn, kt, True))
	nl := BVBin("bvadd", x.objGet(st, name+".len", bv64, ms.T), Ite(was, BVLit(0, 64), BVLit(1, 64)))
	x.objSet(st, name+".len", ms.T, nl)
	okv := toComps(mt.Elem(), v, func(suffix string, tm *Term) {
		key := name + ".val" + suffix
		x.objSet(st, key, ms.T, Store(x.objGet(st, key, Arr(ks, tm.S), ms.T), kt, tm))
	})
	if !okv {
		x.VC.Warnf("MapUpdate with unsupported value %T in %s", v, x.TopName)
	}
	x.ghostMapUpdate(n, mt, i.Map, ms.T, kt, v)
}

func (x *Exec) lookup(n *node, m, k Value, i *ssa.Lookup) Value {
	st := n.st
	if sl, ok := m.(SliceV); ok && sl.Str {
		// string indexing via Lookup
		idx := x.toIndex(k, i.Index.Type())
		x.boundsCheck(n, idx, sl.Len, i.Index.Type(), i.Pos())
		return x.loadElem(st, tyByte, sl.Arr, x.VC.Def("idx", BVBin("bvadd", sl.Off, idx)), n.guard)
	}
	ms, ok := m.(Scalar)
	mt, isMap := i.X.Type().Underlying().(*types.Map)
	if !ok || !isMap {
		x.VC.Warnf("Lookup on unsupported value in %s", x.TopName)
		return x.freshValue(i.Type(), i.Name(), n.guard, st)
	}
	x.guardMap(n, i.X, ms.T, i.Pos(), false)
	kt := x.mapKeyTerm(k, mt.Key(), nil)
	has := x.VC.Def(i.Name()+".has", x.mapHasQuiet(st, mt, ms.T, kt))
	name, ks := x.mapComps(mt)
	val := fromComps(mt.Elem(), func(suffix string, s *Sort) *Term {
		return x.VC.Def(i.Name()+suffix, Ite(has, Select(x.objGet(st, name+".val"+suffix, Arr(ks, s), ms.T), kt), zeroTerm(s)))
	})
	x.assumeTypeInv(val, n.guard, st)
	if i.CommaOk {
		return TupleV{val, Scalar{T: has, Ty: tyBool}}
	}
	return val
}

func (x *Exec) mapDelete(n *node, t types.Type, m *Term, k Value, pos token.Pos) {
	st := n.st
	mt := t.Underlying().(*types.Map)
	name, ks := x.mapComps(mt)
	kt := x.mapKeyTerm(k, mt.Key(), nil)
	x.guardMapByType(n, mt, m, pos, true)
	// delete on a nil map is a no-op (object 0 is never a real map, so updating it is harmless)
	nonnil := Not(Eq(m, IntLit(0)))
	hasIn := x.objGet(st, name+".has", Arr(ks, BoolS), m)
	was := x.VC.Def("map.was", And(nonnil, Select(hasIn, kt)))
	// a present key means the map is not empty
	x.VC.Assume(n.guard, Implies(was, BVCmp("bvsge", x.objGet(st, name+".len", bv64, m), BVLit(1, 64))), "map-len-has")
	x.objSet(st, name+".has", m, Store(hasIn, kt, False))
	nl := BVBin("bvsub", x.objGet(st, name+".len", bv64, m), Ite(was, BVLit(1, 64), BVLit(0, 64)))
	x.objSet(st, name+".len", m, nl)
	x.ghostMapDelete(n, mt, m, kt, was)
}

// ---------- range ----------

type rangeIter struct {
	kind string // "map", "string"
	mt   *types.Map
	m    *Term
	keys *Term // ghost enumeration: Array BV64 Key
	n    *Term // number of keys at loop entry
	st0  *State
	pos  *Term
}

func (x *Exec) rangeInit(n *node, v Value, i *ssa.Range) Value {
	st := n.st
	if mt, ok := i.X.Type().Underlying().(*types.Map); ok {
		ms := v.(Scalar)
		_, ks := x.mapComps(mt)
		it := &rangeIter{kind: "map", mt: mt, m: ms.T, st0: st.Clone()}
		it.keys = x.VC.Fresh("range.keys", Arr(bv64, ks))
		it.n = x.VC.Def("range.n", x.mapLenQuiet(st, mt, ms.T))
		x.guardMap(n, i.X, ms.T, i.Pos(), false)
		// enumeration facts: every enumerated key is present at entry; enumeration is injective; every present key is enumerated
		j := x.VC.Fresh("j", bv64)
		x.VC.AssumeForall([]*Term{j}, n.guard, Implies(BVCmp("bvult", j, it.n), x.mapHasQuiet(it.st0, mt, ms.T, Select(it.keys, j))), "range-enum-present")
		j1, j2 := x.VC.Fresh("j1", bv64), x.VC.Fresh("j2", bv64)
		x.VC.AssumeForall([]*Term{j1, j2}, n.guard, Implies(And(BVCmp("bvult", j1, it.n), BVCmp("bvult", j2, it.n), Eq(Select(it.keys, j1), Select(it.keys, j2))), Eq(j1, j2)), "range-enum-injective")
		kk := x.VC.Fresh("kk", ks)
		posf := "rangepos" + fmt.Sprint(len(x.VC.Facts))
		x.VC.DeclFunc(posf, bv64, ks)
		pk := App(posf, bv64, kk)
		x.VC.AssumeForall([]*Term{kk}, n.guard, Implies(x.mapHasQuiet(it.st0, mt, ms.T, kk), And(BVCmp("bvult", pk, it.n), Eq(Select(it.keys, pk), kk))), "range-enum-complete")
		x.VC.Assume(n.guard, And(BVCmp("bvsle", BVLit(0, 64), it.n), BVCmp("bvsle", it.n, lim47)), "range-n")
		st.Vars["range.j:"+i.Name()] = Scalar{T: BVLit(0, 64), Ty: tyInt}
		st.Vars["range.iter"] = iterBox{Scalar: Scalar{T: IntLit(0)}, it: it, name: i.Name()}
		return iterBox{Scalar: Scalar{T: IntLit(0)}, it: it, name: i.Name()}
	}
	x.VC.Warnf("range over %s not supported in %s", i.X.Type(), x.TopName)
	return UnknownV{Ty: i.Type()}
}

// iterBox carries a Go-side iterator through the environment.
type iterBox struct {
	Scalar
	it   *rangeIter
	name string
}

func (s Scalar) withIter(it *rangeIter) Value { return iterBox{Scalar: s, it: it} }

func (x *Exec) rangeNext(n *node, itv Value, i *ssa.Next) Value {
	st := n.st
	ib, ok := itv.(iterBox)
	if !ok {
		x.VC.Warnf("Next on unsupported iterator in %s", x.TopName)
		return x.freshValue(i.Type(), i.Name(), n.guard, st)
	}
	it := ib.it
	// loop counter lives in a ghost variable "range.j:<iter>" kept in Vars so that loop cuts havoc it as a phi-like value
	jkey := "range.j:" + i.Iter.Name()
	var j *Term
	if jv, ok := st.Vars[jkey].(Scalar); ok {
		j = jv.T
	} else {
		j = BVLit(0, 64)
	}
	more := x.VC.Def(i.Name()+".ok", BVCmp("bvult", j, it.n))
	key := x.VC.Def(i.Name()+".key", Select(it.keys, j))
	tup := i.Type().(*types.Tuple)
	var kv Value
	switch {
	case isString(it.mt.Key()):
		// string keys: an arbitrary string value whose identity is the key
		kv = x.freshValue(it.mt.Key(), i.Name()+".k", n.guard, st)
		x.VC.Assume(n.guard, Eq(x.sid(kv.(SliceV)), key), "range-key-sid")
	default:
		kv = fromComps(tup.At(1).Type(), func(suffix string, s *Sort) *Term {
			if suffix == ".tag" {
				return x.VC.UF("keytag", IntS, key)
			}
			return key
		})
	}
	val := x.mapLoadQuiet(st, it.mt, it.m, key)
	// values loaded: name them
	val = x.nameValue(val, i.Name()+".v")
	x.assumeTypeInv(val, n.guard, st)
	st.Vars[jkey] = Scalar{T: x.VC.Def("range.j", Ite(more, BVBin("bvadd", j, BVLit(1, 64)), j)), Ty: tyInt}
	st.Vars["range.cur:"+i.Iter.Name()] = Scalar{T: j, Ty: tyInt}
	return TupleV{Scalar{T: more, Ty: tyBool}, kv, val}
}

func (x *Exec) nameValue(v Value, hint string) Value {
	switch vv := v.(type) {
	case Scalar:
		vv.T = x.VC.Def(hint, vv.T)
		return vv
	case SliceV:
		vv.Arr = x.VC.Def(hint+".arr", vv.Arr)
		vv.Off = x.VC.Def(hint+".off", vv.Off)
		vv.Len = x.VC.Def(hint+".len", vv.Len)
		if vv.Cap != nil {
			vv.Cap = x.VC.Def(hint+".cap", vv.Cap)
		}
		return vv
	case IfaceV:
		vv.Tag = x.VC.Def(hint+".tag", vv.Tag)
		vv.Val = x.VC.Def(hint+".val", vv.Val)
		return vv
	}
	return v
}
