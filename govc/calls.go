package govc

import (
	"fmt"
	"go/ast"
	"go/constant"
	"go/token"
	"go/types"
	"os"
	"sort"
	"strings"

	"golang.org/x/tools/go/ssa"
)

const maxInlineDepth = 6

func resultNames(sig *types.Signature) []string {
	res := sig.Results()
	names := make([]string, res.Len())
	for i := 0; i < res.Len(); i++ {
		v := res.At(i)
		switch {
		case v.Name() != "" && v.Name() != "_":
			names[i] = v.Name()
		case i == res.Len()-1 && types.Identical(v.Type(), types.Universe.Lookup("error").Type()):
			names[i] = "err"
		case res.Len() == 1:
			names[i] = "result"
		default:
			names[i] = fmt.Sprintf("result%d", i)
		}
	}
	return names
}

func (x *Exec) call(fc *funcCtx, n *node, ins ssa.Instruction, c *ssa.CallCommon, rty types.Type) Value {
	st := n.st
	op := func(v ssa.Value) Value { return x.operandIn(n.env, v, st) }
	var args []Value
	for _, a := range c.Args {
		args = append(args, op(a))
	}
	pos := ins.Pos()
	x.atCallAssertions(fc, n, ins, c, args)
	if c.IsInvoke() {
		recv := op(c.Value)
		return x.invoke(fc, n, ins, c, recv, args, rty)
	}
	switch callee := c.Value.(type) {
	case *ssa.Builtin:
		return x.builtin(n, callee.Name(), c, args, rty, pos)
	case *ssa.Function:
		return x.callStatic(fc, n, callee, args, nil, rty, pos)
	case *ssa.MakeClosure:
		cv := op(callee).(ClosureV)
		return x.callStatic(fc, n, cv.Fn, args, cv.Bindings, rty, pos)
	default:
		fv := op(c.Value)
		if cv, ok := fv.(ClosureV); ok {
			return x.callStatic(fc, n, cv.Fn, args, cv.Bindings, rty, pos)
		}
		return x.dynamicCall(fc, n, c, fv, args, rty, pos)
	}
}

func (x *Exec) wrapResults(vals []Value, rty types.Type) Value {
	if tup, ok := rty.(*types.Tuple); ok {
		if tup.Len() == 0 {
			return TupleV{}
		}
		return TupleV(vals)
	}
	if len(vals) == 1 {
		return vals[0]
	}
	return TupleV(vals)
}

func (x *Exec) freshResults(rty types.Type, hint string, n *node) []Value {
	// the callee may have allocated: results may refer to objects that did not exist before the call
	nn := x.VC.Fresh("next", IntS)
	x.VC.Assume(n.guard, IntCmp(">=", nn, n.st.Next), "next-after-call")
	n.st.Next = nn
	var out []Value
	if tup, ok := rty.(*types.Tuple); ok {
		for i := 0; i < tup.Len(); i++ {
			out = append(out, x.freshValue(tup.At(i).Type(), fmt.Sprintf("%s.r%d", hint, i), n.guard, n.st))
		}
		return out
	}
	return []Value{x.freshValue(rty, hint+".r", n.guard, n.st)}
}

func (x *Exec) callStatic(fc *funcCtx, n *node, callee *ssa.Function, args []Value, bindings []Value, rty types.Type, pos token.Pos) Value {
	name := x.P.SpecName(callee)
	full := callee.String()
	// 1. engine-level externs
	if h, ok := externTable[full]; ok {
		return h(x, fc, n, callee, args, rty, pos)
	}
	// 2. contract
	if fs, ok := x.P.Spec.Funcs[name]; ok && !fs.Inline {
		if !(callee == x.Top && false) {
			return x.applyContract(n, fs, callee, name, args, rty, pos)
		}
	}
	// 3. inline
	if callee.Blocks != nil && x.depth < maxInlineDepth && !x.onStack(callee) {
		pk := callee.Pkg
		if pk == nil && callee.Parent() != nil {
			q := callee
			for q.Parent() != nil {
				q = q.Parent()
			}
			pk = q.Pkg
		}
		if pk != nil && debugPkgs[pk.Pkg.Path()] {
			return x.inline(n, callee, name, args, bindings, rty)
		}
	}
	// 4. unknown extern: no effect on tracked state, arbitrary result
	x.VC.Warnf("call to %s: no contract and not inlined; result arbitrary, no effect on tracked state assumed", full)
	x.VC.Assumptions["calls to functions outside the contract file and the repository (logging, fmt, TLS, os) have no effect on tracked state"] = true
	return x.wrapResults(x.freshResults(rty, callee.Name(), n), rty)
}

func (x *Exec) onStack(fn *ssa.Function) bool {
	if fn == x.Top {
		return true
	}
	for _, f := range x.stack {
		if f == fn {
			return true
		}
	}
	return false
}

func (x *Exec) inline(n *node, callee *ssa.Function, name string, args, bindings []Value, rty types.Type) Value {
	savedPath := x.inlinePath
	if x.inlinePath == "" {
		x.inlinePath = name
	} else {
		x.inlinePath = x.inlinePath + ">" + name
	}
	x.depth++
	x.stack = append(x.stack, callee)
	savedVars := n.st.Vars
	savedDefers := n.st.Defers
	st := n.st.Clone()
	st.Vars = map[string]Value{}
	st.Defers = nil
	savedNode := x.curNode
	vals, out, rg := x.runFunc(callee, args, bindings, st, n.guard, nil, false)
	n.extra = append(n.extra, x.lastNodes...)
	x.curNode = savedNode
	x.VC.CurTag = savedNode
	x.stack = x.stack[:len(x.stack)-1]
	x.depth--
	x.inlinePath = savedPath
	if rg == False {
		// callee never returns
		n.dead = true
		return UnknownV{Ty: rty}
	}
	out.Vars = savedVars
	out.Defers = savedDefers
	*n.st = *out
	// paths on which the callee does not return are unreachable afterwards
	if rg != n.guard {
		x.VC.Assume(n.guard, rg, "callee-returned")
	}
	return x.wrapResults(vals, rty)
}

// ---------- contracts at call sites ----------

func (x *Exec) specEnvFor(fs *FuncSpec, callee *ssa.Function, args []Value, st *State, guard *Term) *SpecEnv {
	errs := []string{}
	e := &SpecEnv{x: x, vars: map[string]Value{}, st: st, guard: guard, errs: &errs}
	if callee != nil {
		for i, p := range callee.Params {
			if i < len(args) {
				e.vars[p.Name()] = args[i]
			}
		}
	}
	for i, p := range fs.Params {
		if i < len(args) {
			e.vars[p] = args[i]
		}
	}
	return e
}

func clauseLabel(c *Clause) string {
	t := c.Text
	if len(t) > 70 {
		t = t[:70]
	}
	return t
}

func (x *Exec) applyContract(n *node, fs *FuncSpec, callee *ssa.Function, name string, args []Value, rty types.Type, pos token.Pos) Value {
	st := n.st
	cs := fs.CallCase()
	pre := st.Clone()
	env := x.specEnvFor(fs, callee, args, st, n.guard)
	env.old = pre
	// requires
	for _, c := range cs.Clauses {
		if c.Kind != "requires" {
			continue
		}
		env.assume = false
		g := env.EvalBool(c.Expr)
		x.reportSpecErrors(env, name, c)
		x.Oblige("pre", clauseLabel(c)+" @"+name, fmt.Sprint(pos), pos, n.guard, g, c.Props)
		x.VC.Assume(n.guard, g, "pre-holds-after-check")
	}
	// havoc modifies
	x.havocForCall(n, fs, cs, callee, args, env)
	// "observed" ghost flags may be raised by the callee (they never go back to false)
	for _, flag := range x.P.Spec.Observes {
		key := "ghost." + flag
		s := Arr(IntS, BoolS)
		old := x.heap(st, key, s)
		na := x.VC.Fresh("obs."+flag, s)
		o := x.VC.Fresh("oo", IntS)
		x.VC.AssumeForall([]*Term{o}, n.guard, Implies(Select(old, o), Select(na, o)), "observe-monotone")
		st.Heap[key] = na
		delete(st.Shapes, key)
	}
	// results
	var results []Value
	var sig *types.Signature
	if callee != nil {
		sig = callee.Signature
	}
	results = x.freshResults(rty, shortName(name), n)
	if tup, ok := rty.(*types.Tuple); ok && tup.Len() == 0 {
		results = nil
	}
	post := x.specEnvFor(fs, callee, args, st, n.guard)
	post.old = pre
	post.assume = true
	post.freshBase = pre.Next
	if sig != nil {
		for i, nm := range resultNames(sig) {
			if i < len(results) {
				post.vars[nm] = results[i]
				if i == 0 {
					post.vars["result"] = results[0]
				}
			}
		}
	} else if len(results) > 0 {
		post.vars["result"] = results[0]
		for i, r := range results {
			post.vars[fmt.Sprintf("result%d", i)] = r
		}
		if len(results) > 1 {
			post.vars["err"] = results[len(results)-1]
		}
	}
	for _, c := range cs.Clauses {
		if c.Kind == "ghostset" {
			x.applyGhostSet(c, post, st)
			x.reportSpecErrors(post, name, c)
		}
	}
	for _, c := range cs.Clauses {
		if c.Kind != "ensures" {
			continue
		}
		g := post.EvalBool(c.Expr)
		x.reportSpecErrors(post, name, c)
		x.VC.Assume(n.guard, g, "post:"+name)
	}
	x.ghostAfterCall(n, fs, name, args, results)
	return x.wrapResults(results, rty)
}

func shortName(name string) string {
	if k := strings.LastIndex(name, "."); k >= 0 {
		return name[k+1:]
	}
	return name
}

func (x *Exec) reportSpecErrors(e *SpecEnv, fn string, c *Clause) {
	for _, er := range *e.errs {
		x.VC.Warnf("contract error in %s (line %d): %s", fn, c.Line, er)
		x.Oblige("spec-error", fmt.Sprintf("line %d: %s", c.Line, er), "", token.NoPos, True, False, nil)
	}
	*e.errs = nil
}

// modTarget describes one declared modifies target after evaluation.
type modTarget struct {
	kind string // "range" (slice element range), "loc" (single location), "field" (whole field), "elems" (whole Elem<T>)
	sl   SliceV
	lo   *Term
	hi   *Term
	loc  LocV
	key  string
	elem types.Type
}

func (x *Exec) evalModifies(c *Clause, env *SpecEnv) (modTarget, bool) {
	switch m := c.Expr.(type) {
	case *ast.SliceExpr:
		base := env.eval(m.X)
		sl, ok := base.(SliceV)
		if !ok {
			return modTarget{}, false
		}
		lo := BVLit(0, 64)
		hi := sl.Len
		if m.Low != nil {
			lo = env.idxTerm(env.eval(m.Low))
		}
		if m.High != nil {
			hi = env.idxTerm(env.eval(m.High))
		}
		var elem types.Type = tyByte
		if st, ok := sl.Ty.Underlying().(*types.Slice); ok {
			elem = st.Elem()
		}
		return modTarget{kind: "range", sl: sl, lo: lo, hi: hi, elem: elem, key: elemKey(elem)}, true
	case *ast.StarExpr:
		v := env.eval(m.X)
		if lv, ok := v.(LocV); ok {
			return modTarget{kind: "loc", loc: lv}, true
		}
		if s, ok := v.(Scalar); ok {
			if pt, ok := s.Ty.Underlying().(*types.Pointer); ok {
				return modTarget{kind: "obj", key: typeName(pt.Elem()), lo: s.T}, true
			}
		}
	case *ast.SelectorExpr:
		// Type.field (wholesale) or obj.field (one object)
		if id, ok := m.X.(*ast.Ident); ok {
			if _, isVar := env.vars[id.Name]; !isVar {
				if t := x.P.LookupType(id.Name); t != nil {
					return modTarget{kind: "field", key: id.Name + "." + m.Sel.Name}, true
				}
			}
		}
		v := env.evalLoc(m)
		if lv, ok := v.(LocV); ok {
			return modTarget{kind: "loc", loc: lv}, true
		}
	case *ast.Ident:
		// a heap component by name, e.g. Elem<uint8> is not an identifier; allow "all" later
	}
	return modTarget{}, false
}

func locKey(lv LocV) string {
	switch lv.Kind {
	case "box":
		return "Cell." + typeName(lv.Ty.Underlying().(*types.Pointer).Elem())
	case "field":
		return lv.Outer + "." + fieldPathName(lv.ST, lv.Path)
	case "elem":
		return elemKey(lv.Ty.Underlying().(*types.Pointer).Elem())
	}
	return lv.Cell
}

// havocForCall havocs what a contracted callee may modify: declared targets precisely, everything else in its
// syntactic write set wholesale.
func (x *Exec) havocForCall(n *node, fs *FuncSpec, cs *Case, callee *ssa.Function, args []Value, env *SpecEnv) {
	st := n.st
	covered := map[string]bool{}
	for _, c := range cs.Clauses {
		if c.Kind != "modifies" || c.Text == "fresh" {
			continue
		}
		env.assume = false
		mt, ok := x.evalModifies(c, env)
		if !ok {
			x.VC.Warnf("cannot evaluate modifies target %q", c.Text)
			continue
		}
		switch mt.kind {
		case "range":
			covered[mt.key] = true
			x.havocRange(n, mt)
		case "loc":
			covered[locKey(mt.loc)] = true
			x.havocLoc(n, mt.loc)
		case "field":
			covered[mt.key] = true
			x.havocPrefix(n, mt.key)
		case "obj":
			// all fields of one object
			x.havocObject(n, mt.key, mt.lo)
			covered["obj:"+mt.key] = true
		}
	}
	if callee == nil || callee.Blocks == nil {
		return
	}
	for _, c := range cs.Clauses {
		if c.Kind == "modifies" && c.Text == "fresh" {
			// every write not covered by a declared target goes to objects the callee allocated itself (checked
			// against the callee's body): nothing the caller can see changes
			return
		}
	}
	if os.Getenv("GOVC_WRITES") != "" {
		var ks []string
		for k := range x.P.Writes(callee) {
			ks = append(ks, k)
		}
		sort.Strings(ks)
		fmt.Fprintf(os.Stderr, "WRITES %s: %v\n", callee.Name(), ks)
	}
	for k := range x.P.Writes(callee) {
		if strings.HasPrefix(k, "deref:") {
			idx := int(k[len("deref:")] - '0')
			if idx < len(args) {
				if lv, ok := args[idx].(LocV); ok {
					if !covered[locKey(lv)] {
						x.havocLoc(n, lv)
					}
				}
			}
			continue
		}
		if covered[k] {
			continue
		}
		if dot := strings.Index(k, "."); dot > 0 && covered["obj:"+k[:dot]] {
			continue
		}
		x.havocPrefix(n, k)
	}
	_ = st
}

func (x *Exec) havocRange(n *node, mt modTarget) {
	st := n.st
	for _, c := range shapeComps(mt.elem) {
		key := mt.key + c.Suffix
		oldInner := x.VC.Def("old.inner", x.objGet(st, key, Arr(bv64, c.S), mt.sl.Arr))
		na := x.VC.Fresh("mod.inner", Arr(bv64, c.S))
		k := x.VC.Fresh("k", bv64)
		lo := BVBin("bvadd", mt.sl.Off, mt.lo)
		hi := BVBin("bvadd", mt.sl.Off, mt.hi)
		inside := And(BVCmp("bvule", lo, k), BVCmp("bvult", k, hi))
		x.VC.AssumeForall([]*Term{k}, n.guard, Implies(Not(inside), Eq(Select(na, k), Select(oldInner, k))), "frame:range")
		x.objSetRange(st, key, mt.sl.Arr, na, BVBin("bvadd", mt.sl.Off, mt.lo), BVBin("bvadd", mt.sl.Off, mt.hi))
	}
}

func (x *Exec) havocLoc(n *node, lv LocV) {
	st := n.st
	elem := lv.Ty.Underlying().(*types.Pointer).Elem()
	v := x.freshValue(elem, "mod", n.guard, st)
	switch lv.Kind {
	case "box":
		x.storeField(st, "Cell", typeName(elem), elem, lv.Obj, v)
	case "field":
		x.storeField(st, lv.Outer, fieldPathName(lv.ST, lv.Path), elem, lv.Obj, v)
	case "elem":
		x.storeElem(st, elem, lv.Obj, lv.Idx, v)
	case "cell", "global":
		st.Cells[lv.Cell] = v
		st.CellTy[lv.Cell] = elem
	}
}

// havocPrefix replaces every heap component whose key is k or starts with k+"." by a fresh array.
func (x *Exec) havocPrefix(n *node, k string) {
	st := n.st
	seen := map[string]bool{}
	for _, src := range []map[string]*Term{st.Heap, x.initHeap} {
		for key, t := range src {
			if seen[key] {
				continue
			}
			if key == k || strings.HasPrefix(key, k+".") {
				seen[key] = true
				nc := x.VC.Fresh("hv."+key, t.S)
				x.refBoundFact(nc, st.Next)
				x.setHeap(st, key, nc, nil)
			}
		}
	}
	if strings.HasPrefix(k, "global:") {
		delete(st.Cells, k)
		delete(x.globals, k)
	}
	// components with this prefix that are not materialised yet get a new epoch
	x.epoch++
	st.Havoc[k] = x.epoch
	if x.epochNext == nil {
		x.epochNext = map[int]*Term{}
	}
	x.epochNext[x.epoch] = st.Next
}

// havocLater records that component prefix k was havocked before being materialised.
func (x *Exec) havocLater(st *State, k string) {
	// Reads of a never-materialised component use the initial constant H.<key>; to keep soundness we
	// force materialisation lazily: heap() consults st.Ghost["havoc:"+prefix].
}

func (x *Exec) havocObject(n *node, tname string, obj *Term) {
	st := n.st
	t := x.P.LookupType(tname)
	if t == nil {
		return
	}
	stt, ok := t.Underlying().(*types.Struct)
	if !ok {
		return
	}
	for i := 0; i < stt.NumFields(); i++ {
		f := stt.Field(i)
		x.storeField(st, tname, f.Name(), f.Type(), obj, x.freshValue(f.Type(), "mod."+f.Name(), n.guard, st))
	}
}

// ---------- builtins ----------

func (x *Exec) builtin(n *node, name string, c *ssa.CallCommon, args []Value, rty types.Type, pos token.Pos) Value {
	st := n.st
	switch name {
	case "len":
		switch v := args[0].(type) {
		case SliceV:
			return Scalar{T: v.Len, Ty: tyInt}
		case Scalar:
			if mt, ok := c.Args[0].Type().Underlying().(*types.Map); ok {
				return Scalar{T: x.VC.Def("maplen", x.mapLenQuiet(st, mt, v.T)), Ty: tyInt}
			}
			if _, ok := c.Args[0].Type().Underlying().(*types.Chan); ok {
				return Scalar{T: x.chanLen(n, v.T), Ty: tyInt}
			}
		}
	case "cap":
		switch v := args[0].(type) {
		case SliceV:
			if !v.Str {
				return Scalar{T: v.Cap, Ty: tyInt}
			}
		case Scalar:
			if _, ok := c.Args[0].Type().Underlying().(*types.Chan); ok {
				return Scalar{T: x.chanCap(n, v.T), Ty: tyInt}
			}
		}
	case "copy":
		dst, ok1 := args[0].(SliceV)
		src, ok2 := args[1].(SliceV)
		if ok1 && ok2 {
			return x.copyOp(n, dst, src, c.Args[0].Type())
		}
	case "append":
		if sl, ok := args[0].(SliceV); ok {
			return x.appendOp(n, sl, args[1], c)
		}
	case "delete":
		if m, ok := args[0].(Scalar); ok {
			x.mapDelete(n, c.Args[0].Type(), m.T, args[1], pos)
			return TupleV{}
		}
	case "close":
		if ch, ok := args[0].(Scalar); ok {
			x.lastChanField = x.dynKey(c.Args[0])
			x.chanClose(n, ch.T, pos)
			x.lastChanField = ""
			return TupleV{}
		}
	case "print", "println":
		return TupleV{}
	}
	x.VC.Warnf("unsupported builtin %s in %s: result havocked", name, x.TopName)
	return x.wrapResults(x.freshResults(rty, name, n), rty)
}

// copyOp models copy(dst, src): n = min(len dst, len src) elements are copied.
func (x *Exec) copyOp(n *node, dst, src SliceV, dstTy types.Type) Value {
	st := n.st
	var elem types.Type = tyByte
	if stt, ok := dstTy.Underlying().(*types.Slice); ok {
		elem = stt.Elem()
	}
	cnt := x.VC.Def("copy.n", Ite(BVCmp("bvslt", dst.Len, src.Len), dst.Len, src.Len))
	x.VC.Assume(n.guard, And(BVCmp("bvule", cnt, dst.Len), BVCmp("bvule", cnt, src.Len), BVCmp("bvule", dst.Off, BVBin("bvadd", dst.Off, cnt)),
		BVCmp("bvule", BVBin("bvadd", dst.Off, cnt), BVBin("bvadd", dst.Off, dst.Len))), "copy-count")
	for _, c := range shapeComps(elem) {
		key := elemKey(elem) + c.Suffix
		oldDst := x.VC.Def("copy.olddst", x.objGet(st, key, Arr(bv64, c.S), dst.Arr))
		srcArr := x.VC.Def("copy.src", x.objGet(st, key, Arr(bv64, c.S), src.Arr))
		na := x.VC.Fresh("copy.new", Arr(bv64, c.S))
		k := x.VC.Fresh("k", bv64)
		rel := BVBin("bvsub", k, dst.Off)
		body := Eq(Select(na, k), Ite(BVCmp("bvult", rel, cnt), Select(srcArr, BVBin("bvadd", src.Off, rel)), Select(oldDst, k)))
		x.VC.AssumeForall([]*Term{k}, n.guard, body, "copy")
		x.objSetRange(st, key, dst.Arr, na, dst.Off, BVBin("bvadd", dst.Off, cnt))
	}
	return Scalar{T: cnt, Ty: tyInt}
}

// appendOp models append(s, elems...) for a variadic slice argument.
func (x *Exec) appendOp(n *node, sl SliceV, extra Value, c *ssa.CallCommon) Value {
	st := n.st
	elem := c.Args[0].Type().Underlying().(*types.Slice).Elem()
	ex, ok := extra.(SliceV)
	if !ok {
		x.VC.Warnf("append with unsupported argument in %s", x.TopName)
		return x.freshValue(c.Args[0].Type(), "append", n.guard, st)
	}
	newLen := x.VC.Def("append.len", BVBin("bvadd", sl.Len, ex.Len))
	fits := x.VC.Def("append.fits", BVCmp("bvsle", newLen, sl.Cap))
	// result array: in place if it fits, else fresh
	fresh := x.alloc(st, "append")
	resArr := x.VC.Def("append.arr", Ite(fits, sl.Arr, fresh))
	resOff := x.VC.Def("append.off", Ite(fits, sl.Off, BVLit(0, 64)))
	newCap := x.VC.Fresh("append.cap", bv64)
	x.VC.Assume(n.guard, And(BVCmp("bvsle", newLen, newCap), BVCmp("bvsle", newCap, lim47), Implies(fits, Eq(newCap, sl.Cap))), "append-cap")
	for _, cp := range shapeComps(elem) {
		key := elemKey(elem) + cp.Suffix
		oldInner := x.VC.Def("append.old", x.objGet(st, key, Arr(bv64, cp.S), sl.Arr))
		exInner := x.VC.Def("append.ex", x.objGet(st, key, Arr(bv64, cp.S), ex.Arr))
		na := x.VC.Fresh("append.new", Arr(bv64, cp.S))
		k := x.VC.Fresh("k", bv64)
		rel := BVBin("bvsub", k, resOff)
		// positions [0,len) come from the old slice, [len,newLen) from extra, others: unchanged if in place
		val := Ite(BVCmp("bvult", rel, sl.Len), Select(oldInner, BVBin("bvadd", sl.Off, rel)),
			Ite(BVCmp("bvult", rel, newLen), Select(exInner, BVBin("bvadd", ex.Off, BVBin("bvsub", rel, sl.Len))),
				Ite(fits, Select(oldInner, k), zeroTerm(cp.S))))
		x.VC.AssumeForall([]*Term{k}, n.guard, Eq(Select(na, k), val), "append")
		x.objSetRange(st, key, resArr, na, BVBin("bvadd", resOff, sl.Len), BVBin("bvadd", resOff, newLen))
	}
	return SliceV{Arr: resArr, Off: resOff, Len: newLen, Cap: newCap, Ty: c.Args[0].Type()}
}

// ---------- invoke / dynamic ----------

func (x *Exec) invoke(fc *funcCtx, n *node, ins ssa.Instruction, c *ssa.CallCommon, recv Value, args []Value, rty types.Type) Value {
	pos := ins.Pos()
	iv, ok := recv.(IfaceV)
	if ok {
		x.nilCheckIface(n, iv, pos)
		if id, isLit := litInt(iv.Tag); isLit && id != 0 {
			if t, ok := x.tagTypes[id]; ok {
				ms := x.P.Prog.MethodSets.MethodSet(t)
				if sel := ms.Lookup(c.Method.Pkg(), c.Method.Name()); sel != nil {
					if f := x.P.Prog.MethodValue(sel); f != nil {
						var rv Value
						if iv.Box != nil {
							rv = iv.Box
						} else {
							rv = Scalar{T: iv.Val, Ty: t}
						}
						return x.callStatic(fc, n, f, append([]Value{rv}, args...), nil, rty, pos)
					}
				}
			}
		}
	}
	// scheduling a task on a scheduler queue: spawn rule for the closure
	if c.Method.Name() == "Schedule" && strings.HasSuffix(typeName(c.Value.Type()), "scheduler.Scheduler") && len(args) == 1 {
		x.spawnClosure(n, args[0], pos, x.dynKeyAny(c.Value))
		return TupleV{}
	}
	if c.Method.Name() == "Close" && strings.HasSuffix(typeName(c.Value.Type()), "scheduler.Scheduler") {
		return TupleV{}
	}
	// interface method contract
	itn := typeName(c.Value.Type())
	key := itn + "." + c.Method.Name()
	if fs, ok := x.P.Spec.Funcs[key]; ok {
		return x.applyContract(n, fs, nil, key, append([]Value{recv}, args...), rty, pos)
	}
	x.VC.Warnf("invoke %s: no interface contract; result arbitrary, declared write sets of in-repo implementations havocked", key)
	for _, impl := range x.P.Implementations(c.Value.Type(), c.Method) {
		for k := range x.P.Writes(impl) {
			if !strings.HasPrefix(k, "deref:") {
				x.havocPrefix(n, k)
			}
		}
	}
	return x.wrapResults(x.freshResults(rty, c.Method.Name(), n), rty)
}

func (x *Exec) nilCheckIface(n *node, iv IfaceV, pos token.Pos) {
	if id, ok := litInt(iv.Tag); ok && id != 0 {
		return
	}
	txt := x.srcExpr(pos, "call")
	x.Oblige("nil", txt, fmt.Sprint(pos), pos, n.guard, Not(Eq(iv.Tag, IntLit(0))), nil)
	x.VC.Assume(n.guard, Not(Eq(iv.Tag, IntLit(0))), "nonnil-after-check")
}

func (x *Exec) dynamicCall(fc *funcCtx, n *node, c *ssa.CallCommon, fv Value, args []Value, rty types.Type, pos token.Pos) Value {
	// function value read from a field: contract keyed by "Type.field"
	if s, ok := fv.(Scalar); ok {
		x.nilCheck(n, s.T, pos, "call")
	}
	key := x.dynKey(c.Value)
	if key != "" {
		if fs, ok := x.P.Spec.Funcs[key]; ok {
			return x.applyContract(n, fs, nil, key, args, rty, pos)
		}
	}
	x.VC.Warnf("dynamic call through %s (%s): no contract; result arbitrary, no effect on tracked state assumed", c.Value.Name(), key)
	return x.wrapResults(x.freshResults(rty, "dyn", n), rty)
}

// dynKey names a dynamic callee by the field it was loaded from, e.g. "stream.write".
func (x *Exec) dynKey(v ssa.Value) string {
	if u, ok := v.(*ssa.UnOp); ok && u.Op == token.MUL {
		if fa, ok := u.X.(*ssa.FieldAddr); ok {
			pt := fa.X.Type().Underlying().(*types.Pointer)
			st := pt.Elem().Underlying().(*types.Struct)
			return typeName(pt.Elem()) + "." + st.Field(fa.Field).Name()
		}
	}
	return ""
}

// ---------- defers ----------

func (x *Exec) runDefers(fc *funcCtx, n *node) {
	ds := n.st.Defers
	n.st.Defers = nil
	for i := len(ds) - 1; i >= 0; i-- {
		d := ds[i]
		di := d.call.(*ssa.Defer)
		recv := d.args[0]
		dguard := d.args[1].(Scalar).T
		args := d.args[2:]
		// execute under the condition that the defer statement was reached
		cond := dguard
		saveGuard := n.guard
		before := n.st.Clone()
		n.guard = x.VC.Def("g.defer", And(saveGuard, cond))
		n.st.G = n.guard
		c := &di.Call
		rty := c.Signature().Results()
		if c.IsInvoke() {
			x.invoke(fc, n, di, c, recv, args, rty)
		} else {
			switch callee := c.Value.(type) {
			case *ssa.Function:
				x.callStatic(fc, n, callee, args, nil, rty, di.Pos())
			case *ssa.Builtin:
				x.builtin(n, callee.Name(), c, args, rty, di.Pos())
			default:
				if cv, ok := recv.(ClosureV); ok {
					x.callStatic(fc, n, cv.Fn, args, cv.Bindings, rty, di.Pos())
				} else {
					x.VC.Warnf("deferred dynamic call in %s not modelled", x.TopName)
				}
			}
		}
		n.guard = saveGuard
		n.st.G = saveGuard
		if cond != True && !impliesSyntactically(saveGuard, cond) {
			merged := x.mergeStates(cond, n.st, before)
			*n.st = *merged
		}
	}
}

func impliesSyntactically(a, b *Term) bool { return a == b }

// applyGhostSet executes `ghostset gf_name(obj) = expr` on state st, evaluating in env.
func (x *Exec) applyGhostSet(c *Clause, env *SpecEnv, st *State) {
	call, ok := c.Lhs.(*ast.CallExpr)
	if !ok || len(call.Args) > 1 {
		env.errorf("ghostset: target must be gf_name(obj), gb_name(obj), gg_name() or ggb_name()")
		return
	}
	id, ok := call.Fun.(*ast.Ident)
	if !ok || !(strings.HasPrefix(id.Name, "gf_") || strings.HasPrefix(id.Name, "gb_") || strings.HasPrefix(id.Name, "gg_") || strings.HasPrefix(id.Name, "ggb_") || strings.HasPrefix(id.Name, "ggv_") || strings.HasPrefix(id.Name, "gv_")) {
		env.errorf("ghostset: target must be gf_name(obj), gb_name(obj), gg_name() or ggb_name()")
		return
	}
	var obj *Term
	gname := id.Name[3:]
	if strings.HasPrefix(id.Name, "gv_") {
		gname = "v." + id.Name[3:]
	}
	isBool := strings.HasPrefix(id.Name, "gb_")
	if len(call.Args) == 0 {
		obj = IntLit(0)
		if strings.HasPrefix(id.Name, "ggb_") {
			gname = "global." + id.Name[4:]
			isBool = true
		} else if strings.HasPrefix(id.Name, "ggv_") {
			gname = "globalv." + id.Name[4:]
		} else {
			gname = "global." + id.Name[3:]
		}
	} else {
		switch v := env.eval(call.Args[0]).(type) {
		case Scalar:
			obj = v.T
		case IfaceV:
			obj = v.Val
		case LocV:
			obj = v.Obj
		}
	}
	if obj == nil {
		env.errorf("ghostset: object expected")
		return
	}
	var rhs *Term
	if isBool {
		rhs = env.EvalBool(c.Expr)
	} else {
		switch v := env.eval(c.Expr).(type) {
		case Scalar:
			rhs = v.T
		case UConst:
			if iv, ok := constant.Int64Val(constant.ToInt(v.V)); ok {
				rhs = IntLit(iv)
			}
		case SliceV:
			if v.Str {
				rhs = x.sid(v)
			}
		}
	}
	if rhs == nil {
		env.errorf("ghostset: unsupported value")
		return
	}
	save := env.st
	env.st = st
	st.noRecord++
	x.objSet(st, "ghost."+gname, obj, rhs)
	st.noRecord--
	env.st = save
}

// calleeDisplayName names a call site for atcall clauses: "(*Call).done", "PutCall", "ClientCodec.WriteRequest".
func (x *Exec) calleeDisplayName(c *ssa.CallCommon) string {
	if c.IsInvoke() {
		return typeName(c.Value.Type()) + "." + c.Method.Name()
	}
	switch callee := c.Value.(type) {
	case *ssa.Function:
		return x.P.SpecName(callee)
	case *ssa.Builtin:
		return callee.Name()
	case *ssa.MakeClosure:
		if f, ok := callee.Fn.(*ssa.Function); ok {
			return x.P.SpecName(f)
		}
	}
	if k := x.dynKey(c.Value); k != "" {
		return k
	}
	return ""
}

// atCallAssertions checks `atcall callee#n: expr` clauses of the function under verification at this call site.
func (x *Exec) atCallAssertions(fc *funcCtx, n *node, ins ssa.Instruction, c *ssa.CallCommon, args []Value) {
	if !fc.top {
		return
	}
	name := x.calleeDisplayName(c)
	if name == "" {
		return
	}
	var clauses []*Clause
	any := false
	for _, cl := range fc.clauses {
		if cl.Kind == "atcall" && cl.Block == name {
			clauses = append(clauses, cl)
		}
		if (cl.Kind == "atcall" || cl.Kind == "ghostat") && cl.Block == name {
			any = true
		}
	}
	if !any {
		return
	}
	// ordinal of this call site among the calls to the same callee, in block order
	ord := 0
	found := false
	for _, b := range fc.fn.Blocks {
		for _, bi := range b.Instrs {
			var cc *ssa.CallCommon
			switch v := bi.(type) {
			case *ssa.Call:
				cc = &v.Call
			case *ssa.Defer:
				cc = &v.Call
			case *ssa.Go:
				cc = &v.Call
			}
			if cc == nil || x.calleeDisplayName(cc) != name {
				continue
			}
			ord++
			if bi == ins {
				found = true
				break
			}
		}
		if found {
			break
		}
	}
	for _, cl := range clauses {
		if cl.Ord != ord {
			continue
		}
		env := x.localSpecEnv(n.st, n.guard, false)
		for i, a := range args {
			env.vars[fmt.Sprintf("arg%d", i)] = a
		}
		g := env.EvalBool(cl.Expr)
		x.reportSpecErrors(env, x.TopName, cl)
		x.Oblige("atcall", fmt.Sprintf("%s#%d: %s", name, ord, clauseLabel(cl)), fmt.Sprint(ins.Pos()), ins.Pos(), n.guard, g, cl.Props)
		if !fc.atcallReach[ins] {
			// vacuity guard: the call site an assertion is attached to must be reachable under the contract
			fc.atcallReach[ins] = true
			if ro := x.Oblige("reach", fmt.Sprintf("call site %s#%d reachable", name, ord), fmt.Sprint(ins.Pos()), ins.Pos(), n.guard, True, cl.Props); ro != nil {
				ro.MustSat = true
			}
		}
		fc.atcallSeen[cl] = true
	}
	// ghost updates attached to this call site
	for _, cl := range fc.clauses {
		if cl.Kind != "ghostat" || cl.Block != name || cl.Ord != ord {
			continue
		}
		env := x.localSpecEnv(n.st, n.guard, true)
		for i, a := range args {
			env.vars[fmt.Sprintf("arg%d", i)] = a
		}
		x.applyGhostSet(cl, env, n.st)
		x.reportSpecErrors(env, x.TopName, cl)
		fc.atcallSeen[cl] = true
	}
}

// spawnClosure: the closure runs later on another goroutine. Its contract's preconditions are obligations of the
// spawner; resources named by `consumes` clauses are handed over (the spawner no longer has them).
func (x *Exec) spawnClosure(n *node, fv Value, pos token.Pos, queue string) {
	cv, ok := fv.(ClosureV)
	if !ok {
		x.VC.Warnf("scheduled function is not a closure literal in %s: nothing checked for it", x.TopName)
		return
	}
	name := x.P.SpecName(cv.Fn)
	fs, ok := x.P.Spec.Funcs[name]
	if !ok {
		x.VC.Warnf("closure %s is scheduled without a contract: its body is not covered by this check", name)
		return
	}
	st := n.st.Clone()
	st.Locks = map[string]bool{}
	errs := []string{}
	env := &SpecEnv{x: x, vars: map[string]Value{}, st: st, old: st, guard: n.guard, errs: &errs}
	for i, fvar := range cv.Fn.FreeVars {
		if i >= len(cv.Bindings) {
			break
		}
		switch b := cv.Bindings[i].(type) {
		case LocV:
			if b.Kind == "cell" {
				if v, ok := n.st.Cells[b.Cell]; ok {
					env.vars[fvar.Name()] = v
				}
			}
		default:
			env.vars[fvar.Name()] = b
		}
	}
	env.vars["queue"] = x.stringLit(queue, types.Typ[types.String])
	for _, cl := range fs.CallCase().Clauses {
		switch cl.Kind {
		case "requires":
			g := env.EvalBool(cl.Expr)
			x.reportSpecErrors(env, name, cl)
			x.Oblige("pre", clauseLabel(cl)+" @schedule "+name, fmt.Sprint(pos), pos, n.guard, g, cl.Props)
		}
	}
	for _, cl := range fs.CallCase().Clauses {
		if cl.Kind != "consumes" {
			continue
		}
		// consumes gf_tok(x): the spawner must hold the token (2) and gives it away
		call, ok := cl.Expr.(*ast.CallExpr)
		if !ok || len(call.Args) != 1 {
			continue
		}
		id, _ := call.Fun.(*ast.Ident)
		if id == nil || !strings.HasPrefix(id.Name, "gf_") {
			continue
		}
		env.st = n.st
		ov, ok := env.eval(call.Args[0]).(Scalar)
		if !ok {
			continue
		}
		key := "ghost." + id.Name[3:]
		cur := x.objGet(n.st, key, IntS, ov.T)
		internal := x.objGet(n.st, "ghost.internal", BoolS, ov.T)
		x.Oblige("token", "handing "+cl.Text+" to "+name, fmt.Sprint(pos), pos, n.guard, Or(Eq(cur, IntLit(2)), internal), nil)
		n.st.noRecord++
		x.objSet(n.st, key, ov.T, Ite(internal, cur, IntLit(0)))
		n.st.noRecord--
	}
}
