package govc

import (
	"go/ast"
	"go/types"
	"strings"

	"golang.org/x/tools/go/ssa"
)

// Syntactic write-set analysis: which heap components a function may modify
// (transitively through static callees and in-repo implementations of invoked interface methods).
// Keys: "<Struct>.<field>" (all components with that prefix), "Elem<T>", "Map<...>", "deref:<i>" (write through parameter i).

func mapKeyName(t types.Type) string { return "Map<" + typeName(t) + ">" }

func (p *Program) Writes(fn *ssa.Function) map[string]bool {
	if p.writes == nil {
		p.writes = map[*ssa.Function]map[string]bool{}
	}
	if w, ok := p.writes[fn]; ok {
		return w
	}
	w := map[string]bool{}
	p.writes[fn] = w // break recursion
	for _, b := range fn.Blocks {
		for _, ins := range b.Instrs {
			p.instrWrites(fn, ins, w)
		}
	}
	for _, anon := range fn.AnonFuncs {
		_ = anon
	}
	return w
}

func (p *Program) addrKey(fn *ssa.Function, addr ssa.Value, w map[string]bool) {
	switch a := addr.(type) {
	case *ssa.FieldAddr:
		pt := a.X.Type().Underlying().(*types.Pointer)
		st := pt.Elem().Underlying().(*types.Struct)
		// nested field addr: find root struct
		if inner, ok := a.X.(*ssa.FieldAddr); ok {
			// key by the outermost named struct and path
			path := st.Field(a.Field).Name()
			cur := inner
			for {
				ipt := cur.X.Type().Underlying().(*types.Pointer)
				ist := ipt.Elem().Underlying().(*types.Struct)
				path = ist.Field(cur.Field).Name() + "." + path
				if nx, ok := cur.X.(*ssa.FieldAddr); ok {
					cur = nx
					continue
				}
				w[typeName(ipt.Elem())+"."+path] = true
				break
			}
			return
		}
		w[typeName(pt.Elem())+"."+st.Field(a.Field).Name()] = true
	case *ssa.IndexAddr:
		switch t := a.X.Type().Underlying().(type) {
		case *types.Slice:
			w[elemKey(t.Elem())] = true
		case *types.Pointer:
			if at, ok := t.Elem().Underlying().(*types.Array); ok {
				w[elemKey(at.Elem())] = true
			}
		}
	case *ssa.Alloc:
		if _, isStruct := a.Type().(*types.Pointer).Elem().Underlying().(*types.Struct); isStruct {
			// whole-struct store to a fresh local object: fields of that type
			el := a.Type().(*types.Pointer).Elem()
			st := el.Underlying().(*types.Struct)
			for i := 0; i < st.NumFields(); i++ {
				w[typeName(el)+"."+st.Field(i).Name()] = true
			}
		}
	case *ssa.Parameter:
		for i, q := range fn.Params {
			if q == a {
				// whole-struct store through a pointer param
				el := a.Type().Underlying().(*types.Pointer).Elem()
				if st, ok := el.Underlying().(*types.Struct); ok {
					for k := 0; k < st.NumFields(); k++ {
						w[typeName(el)+"."+st.Field(k).Name()] = true
					}
					return
				}
				w["deref:"+string(rune('0'+i))] = true
			}
		}
	case *ssa.Global:
		w["global:"+a.Pkg.Pkg.Path()+"."+a.Name()] = true
	default:
		// store through a loaded pointer / phi: struct -> its fields; else unknown
		if pt, ok := addr.Type().Underlying().(*types.Pointer); ok {
			if st, ok := pt.Elem().Underlying().(*types.Struct); ok {
				for k := 0; k < st.NumFields(); k++ {
					w[typeName(pt.Elem())+"."+st.Field(k).Name()] = true
				}
				return
			}
			w["Cell."+typeName(pt.Elem())] = true
		}
	}
}

func (p *Program) instrWrites(fn *ssa.Function, ins ssa.Instruction, w map[string]bool) {
	switch i := ins.(type) {
	case *ssa.Store:
		p.addrKey(fn, i.Addr, w)
	case *ssa.MapUpdate:
		w[mapKeyName(i.Map.Type())] = true
		p.tokenTableWrites(i.Map, w)
	case *ssa.Call:
		p.callWrites(fn, &i.Call, w)
	case *ssa.Defer:
		p.callWrites(fn, &i.Call, w)
	case *ssa.Go:
		// spawned code runs concurrently; its effects are covered by the concurrency rules
	case *ssa.MakeClosure:
		// closure bodies are analysed when called
	case *ssa.Send:
		w["Chan.len"] = true
	}
}

// ghostKey names the ghost component a ghostset/ghostat target writes.
func ghostKey(lhs ast.Expr) string {
	call, ok := lhs.(*ast.CallExpr)
	if !ok {
		return ""
	}
	id, ok := call.Fun.(*ast.Ident)
	if !ok {
		return ""
	}
	switch {
	case strings.HasPrefix(id.Name, "ggv_"):
		return "ghost.globalv." + id.Name[4:]
	case strings.HasPrefix(id.Name, "ggb_"):
		return "ghost.global." + id.Name[4:]
	case strings.HasPrefix(id.Name, "gg_"):
		return "ghost.global." + id.Name[3:]
	case strings.HasPrefix(id.Name, "gv_"):
		return "ghost.v." + id.Name[3:]
	case strings.HasPrefix(id.Name, "gf_"), strings.HasPrefix(id.Name, "gb_"):
		return "ghost." + id.Name[3:]
	}
	return ""
}

// specGhostWrites: ghost components a contracted callee updates (its ghostset / ghostat / consumes clauses).
func (p *Program) specGhostWrites(name string, w map[string]bool) {
	if p.Spec == nil {
		return
	}
	fs, ok := p.Spec.Funcs[name]
	if !ok {
		return
	}
	for _, cs := range fs.EffectiveCases() {
		for _, cl := range cs.Clauses {
			switch cl.Kind {
			case "ghostset", "ghostat":
				if k := ghostKey(cl.Lhs); k != "" {
					w[k] = true
				}
			case "consumes":
				if k := ghostKey(cl.Expr); k != "" {
					w[k] = true
				}
			}
		}
	}
}

func (p *Program) tokenTableWrites(mv ssa.Value, w map[string]bool) {
	if p.Spec == nil {
		return
	}
	key := staticFieldKey(mv)
	if tk, ok := p.Spec.TokenTables[key]; ok {
		w["ghost."+tk] = true
		if sl := p.Spec.TokenSlots[key]; sl != "" {
			w["ghost.v."+sl] = true
		}
	}
}

// staticFieldKey: "Type.field" when v is a load of a struct field.
func staticFieldKey(v ssa.Value) string {
	if u, ok := v.(*ssa.UnOp); ok {
		v = u.X
	}
	if fa, ok := v.(*ssa.FieldAddr); ok {
		pt := fa.X.Type().Underlying().(*types.Pointer)
		st := pt.Elem().Underlying().(*types.Struct)
		return typeName(pt.Elem()) + "." + st.Field(fa.Field).Name()
	}
	return ""
}

func (p *Program) callWrites(fn *ssa.Function, c *ssa.CallCommon, w map[string]bool) {
	if c.IsInvoke() {
		p.specGhostWrites(typeName(c.Value.Type())+"."+c.Method.Name(), w)
		// union over in-repo implementations
		for _, impl := range p.Implementations(c.Value.Type(), c.Method) {
			for k := range p.Writes(impl) {
				if !strings.HasPrefix(k, "deref:") {
					w[k] = true
				}
			}
		}
		return
	}
	switch callee := c.Value.(type) {
	case *ssa.Builtin:
		switch callee.Name() {
		case "copy", "append":
			if st, ok := c.Args[0].Type().Underlying().(*types.Slice); ok {
				w[elemKey(st.Elem())] = true
			}
		case "delete":
			w[mapKeyName(c.Args[0].Type())] = true
			p.tokenTableWrites(c.Args[0], w)
		case "close":
			w["Chan.closed"] = true
		}
	case *ssa.Function:
		p.specGhostWrites(p.SpecName(callee), w)
		p.calleeWrites(fn, callee, c.Args, w)
	case *ssa.MakeClosure:
		if f, ok := callee.Fn.(*ssa.Function); ok {
			p.calleeWrites(fn, f, nil, w)
		}
	}
}

func (p *Program) calleeWrites(fn, callee *ssa.Function, args []ssa.Value, w map[string]bool) {
	if callee.Blocks == nil {
		return
	}
	pk := callee.Pkg
	if pk == nil && callee.Parent() != nil {
		pk = callee.Parent().Pkg
	}
	if pk == nil || !debugPkgs[pk.Pkg.Path()] {
		return // extern: handled by the extern table
	}
	for k := range p.Writes(callee) {
		if strings.HasPrefix(k, "deref:") {
			idx := int(k[len("deref:")] - '0')
			if idx < len(args) {
				p.addrKey(fn, args[idx], w)
			}
			continue
		}
		w[k] = true
	}
}

// Implementations returns the in-repo (and hslam/code) functions implementing method m of interface type it.
func (p *Program) Implementations(it types.Type, m *types.Func) []*ssa.Function {
	iface, ok := it.Underlying().(*types.Interface)
	if !ok {
		return nil
	}
	var out []*ssa.Function
	for _, pkg := range p.Prog.AllPackages() {
		if !debugPkgs[pkg.Pkg.Path()] {
			continue
		}
		for _, mem := range pkg.Members {
			tn, ok := mem.(*ssa.Type)
			if !ok {
				continue
			}
			for _, t := range []types.Type{tn.Type(), types.NewPointer(tn.Type())} {
				if _, isIface := t.Underlying().(*types.Interface); isIface {
					continue
				}
				if types.Implements(t, iface) {
					ms := p.Prog.MethodSets.MethodSet(t)
					sel := ms.Lookup(m.Pkg(), m.Name())
					if sel != nil {
						if f := p.Prog.MethodValue(sel); f != nil {
							// unwrap synthetic wrappers (pointer receiver wrappers) by name
							out = append(out, f)
						}
					}
				}
			}
		}
	}
	return out
}
