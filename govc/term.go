package govc

import (
	"fmt"
	"math/big"
	"sort"
	"strings"
	"sync"
)

// Sort is an SMT sort.
type Sort struct {
	Kind string // "Bool", "BV", "Int", "Real", "Array"
	W    int    // BV width
	Idx  *Sort
	Elem *Sort
}

var (
	BoolS = &Sort{Kind: "Bool"}
	IntS  = &Sort{Kind: "Int"}
	RealS = &Sort{Kind: "Real"}
	bvs   = map[int]*Sort{}
	arrs  = map[string]*Sort{}
)

var sortMu sync.Mutex

func BV(w int) *Sort {
	sortMu.Lock()
	defer sortMu.Unlock()
	if s, ok := bvs[w]; ok {
		return s
	}
	s := &Sort{Kind: "BV", W: w}
	bvs[w] = s
	return s
}

func Arr(idx, elem *Sort) *Sort {
	k := idx.String() + ">" + elem.String()
	sortMu.Lock()
	defer sortMu.Unlock()
	if s, ok := arrs[k]; ok {
		return s
	}
	s := &Sort{Kind: "Array", Idx: idx, Elem: elem}
	arrs[k] = s
	return s
}

func (s *Sort) String() string {
	switch s.Kind {
	case "BV":
		return fmt.Sprintf("(_ BitVec %d)", s.W)
	case "Array":
		return "(Array " + s.Idx.String() + " " + s.Elem.String() + ")"
	}
	return s.Kind
}

func (s *Sort) Eq(o *Sort) bool { return s == o || s.String() == o.String() }

// Term is an SMT term (immutable, shared).
type Term struct {
	Op   string // "const" (declared symbol), "lit", or SMT operator
	Name string // for const / lit text
	Args []*Term
	S    *Sort
	id   int
	str  string
}

var termCount int

// hash-consing: structurally equal terms are pointer-equal.
var (
	hcMu    sync.Mutex
	hcTable = map[string]*Term{}
)

func intern(t *Term) *Term {
	var b strings.Builder
	b.WriteString(t.Op)
	b.WriteByte('|')
	b.WriteString(t.Name)
	b.WriteByte('|')
	b.WriteString(t.S.String())
	for _, a := range t.Args {
		fmt.Fprintf(&b, "|%d", a.id)
	}
	k := b.String()
	hcMu.Lock()
	defer hcMu.Unlock()
	if r, ok := hcTable[k]; ok {
		return r
	}
	termCount++
	t.id = termCount
	hcTable[k] = t
	return t
}

func mk(op string, s *Sort, args ...*Term) *Term {
	return intern(&Term{Op: op, Args: args, S: s})
}

// Const makes a reference to a declared symbol.
func Const(name string, s *Sort) *Term {
	return intern(&Term{Op: "const", Name: name, S: s})
}

var (
	True  = intern(&Term{Op: "lit", Name: "true", S: BoolS})
	False = intern(&Term{Op: "lit", Name: "false", S: BoolS})
)

func BVLit(v uint64, w int) *Term {
	if w > 64 {
		panic("wide bv")
	}
	if w < 64 {
		v &= (1 << uint(w)) - 1
	}
	var name string
	if w%4 == 0 {
		name = fmt.Sprintf("#x%0*x", w/4, v)
	} else {
		name = fmt.Sprintf("#b%0*b", w, v)
	}
	return intern(&Term{Op: "lit", Name: name, S: BV(w)})
}

func IntLit(v int64) *Term {
	if v < 0 {
		return intern(&Term{Op: "lit", Name: fmt.Sprintf("(- %d)", -v), S: IntS})
	}
	return intern(&Term{Op: "lit", Name: fmt.Sprintf("%d", v), S: IntS})
}

func RealLit(s string) *Term { return intern(&Term{Op: "lit", Name: s, S: RealS}) }

func (t *Term) IsLit() bool { return t.Op == "lit" }

// BVVal returns the numeric value of a bit-vector literal.
func (t *Term) BVVal() (uint64, bool) {
	if t.Op != "lit" || t.S.Kind != "BV" {
		return 0, false
	}
	n := new(big.Int)
	if strings.HasPrefix(t.Name, "#x") {
		n.SetString(t.Name[2:], 16)
	} else {
		n.SetString(t.Name[2:], 2)
	}
	return n.Uint64(), true
}

func (t *Term) String() string {
	if t.str != "" {
		return t.str
	}
	var s string
	switch t.Op {
	case "const", "lit":
		s = t.Name
	default:
		var b strings.Builder
		b.WriteByte('(')
		b.WriteString(t.Op)
		for _, a := range t.Args {
			b.WriteByte(' ')
			b.WriteString(a.String())
		}
		b.WriteByte(')')
		s = b.String()
	}
	return s
}

// ---- constructors with light simplification ----

func Not(a *Term) *Term {
	if a == True {
		return False
	}
	if a == False {
		return True
	}
	if a.Op == "not" {
		return a.Args[0]
	}
	return mk("not", BoolS, a)
}

func And(as ...*Term) *Term {
	var out []*Term
	for _, a := range as {
		if a == True {
			continue
		}
		if a == False {
			return False
		}
		if a.Op == "and" {
			out = append(out, a.Args...)
		} else {
			out = append(out, a)
		}
	}
	if len(out) == 0 {
		return True
	}
	if len(out) == 1 {
		return out[0]
	}
	return mk("and", BoolS, out...)
}

func Or(as ...*Term) *Term {
	var out []*Term
	for _, a := range as {
		if a == False {
			continue
		}
		if a == True {
			return True
		}
		if a.Op == "or" {
			out = append(out, a.Args...)
		} else {
			out = append(out, a)
		}
	}
	if len(out) == 0 {
		return False
	}
	if len(out) == 1 {
		return out[0]
	}
	return mk("or", BoolS, out...)
}

func Implies(a, b *Term) *Term {
	if a == True {
		return b
	}
	if a == False || b == True {
		return True
	}
	if b == False {
		return Not(a)
	}
	return mk("=>", BoolS, a, b)
}

func Eq(a, b *Term) *Term {
	if a == b {
		return True
	}
	if a.IsLit() && b.IsLit() && a.S.Eq(b.S) {
		if a.Name == b.Name {
			return True
		}
		return False
	}
	if !a.S.Eq(b.S) {
		panic(fmt.Sprintf("Eq sort mismatch: %s : %s  vs  %s : %s", a, a.S, b, b.S))
	}
	if a.S == BoolS {
		if a == True {
			return b
		}
		if b == True {
			return a
		}
		if a == False {
			return Not(b)
		}
		if b == False {
			return Not(a)
		}
	}
	return mk("=", BoolS, a, b)
}

func Ite(c, a, b *Term) *Term {
	if c == True {
		return a
	}
	if c == False {
		return b
	}
	if a == b {
		return a
	}
	if !a.S.Eq(b.S) {
		panic(fmt.Sprintf("Ite sort mismatch: %s vs %s", a.S, b.S))
	}
	if a.S == BoolS {
		if a == True && b == False {
			return c
		}
		if a == False && b == True {
			return Not(c)
		}
	}
	return mk("ite", a.S, c, a, b)
}

func Select(a, i *Term) *Term {
	if a.S.Kind != "Array" {
		panic("select on non-array " + a.String() + " : " + a.S.String())
	}
	if !a.S.Idx.Eq(i.S) {
		panic(fmt.Sprintf("select index sort: %s[%s:%s]", a.S, i, i.S))
	}
	// select over store with syntactically equal index
	if a.Op == "store" && a.Args[1] == i {
		return a.Args[2]
	}
	if a.Op == "store" && a.Args[1].IsLit() && i.IsLit() && a.Args[1].Name != i.Name {
		return Select(a.Args[0], i)
	}
	return mk("select", a.S.Elem, a, i)
}

func Store(a, i, v *Term) *Term {
	if a.S.Kind != "Array" || !a.S.Idx.Eq(i.S) || !a.S.Elem.Eq(v.S) {
		panic(fmt.Sprintf("store sorts: %s [%s] := %s", a.S, i.S, v.S))
	}
	return mk("store", a.S, a, i, v)
}

// BVBin builds a binary bit-vector operation (bvadd, bvsub, ...), folding literals.
func BVBin(op string, a, b *Term) *Term {
	if a.S.Kind != "BV" || !a.S.Eq(b.S) {
		panic(fmt.Sprintf("BVBin %s sort mismatch %s:%s %s:%s", op, a, a.S, b, b.S))
	}
	w := a.S.W
	av, aok := a.BVVal()
	bv, bok := b.BVVal()
	if aok && bok && w <= 64 {
		mask := ^uint64(0)
		if w < 64 {
			mask = (1 << uint(w)) - 1
		}
		switch op {
		case "bvadd":
			return BVLit((av+bv)&mask, w)
		case "bvsub":
			return BVLit((av-bv)&mask, w)
		case "bvmul":
			return BVLit((av*bv)&mask, w)
		case "bvand":
			return BVLit(av&bv, w)
		case "bvor":
			return BVLit(av|bv, w)
		case "bvxor":
			return BVLit(av^bv, w)
		case "bvshl":
			if bv >= uint64(w) {
				return BVLit(0, w)
			}
			return BVLit((av<<bv)&mask, w)
		case "bvlshr":
			if bv >= uint64(w) {
				return BVLit(0, w)
			}
			return BVLit(av>>bv, w)
		}
	}
	if bok && bv == 0 {
		switch op {
		case "bvadd", "bvsub", "bvor", "bvxor", "bvshl", "bvlshr", "bvashr":
			return a
		case "bvand", "bvmul":
			return BVLit(0, w)
		}
	}
	if aok && av == 0 {
		switch op {
		case "bvadd", "bvor", "bvxor":
			return b
		case "bvand", "bvmul", "bvshl", "bvlshr":
			return BVLit(0, w)
		}
	}
	return mk(op, a.S, a, b)
}

// BVCmp builds a comparison (bvult, bvule, bvslt, bvsle, ...).
func BVCmp(op string, a, b *Term) *Term {
	if a.S.Kind != "BV" || !a.S.Eq(b.S) {
		panic(fmt.Sprintf("BVCmp %s sort mismatch %s:%s %s:%s", op, a, a.S, b, b.S))
	}
	av, aok := a.BVVal()
	bv, bok := b.BVVal()
	if aok && bok {
		w := uint(a.S.W)
		sa, sb := int64(av<<(64-w))>>(64-w), int64(bv<<(64-w))>>(64-w)
		var r bool
		switch op {
		case "bvult":
			r = av < bv
		case "bvule":
			r = av <= bv
		case "bvugt":
			r = av > bv
		case "bvuge":
			r = av >= bv
		case "bvslt":
			r = sa < sb
		case "bvsle":
			r = sa <= sb
		case "bvsgt":
			r = sa > sb
		case "bvsge":
			r = sa >= sb
		}
		if r {
			return True
		}
		return False
	}
	return mk(op, BoolS, a, b)
}

func BVNot(a *Term) *Term { return mk("bvnot", a.S, a) }
func BVNeg(a *Term) *Term { return mk("bvneg", a.S, a) }

func Extract(hi, lo int, a *Term) *Term {
	if v, ok := a.BVVal(); ok {
		return BVLit(v>>uint(lo), hi-lo+1)
	}
	if lo == 0 && hi == a.S.W-1 {
		return a
	}
	// extract of a zero extension back to the original width
	if strings.HasPrefix(a.Op, "(_ zero_extend") && lo == 0 && hi == a.Args[0].S.W-1 {
		return a.Args[0]
	}
	return mk(fmt.Sprintf("(_ extract %d %d)", hi, lo), BV(hi-lo+1), a)
}

func ZeroExt(n int, a *Term) *Term {
	if n == 0 {
		return a
	}
	if v, ok := a.BVVal(); ok {
		return BVLit(v, a.S.W+n)
	}
	return mk(fmt.Sprintf("(_ zero_extend %d)", n), BV(a.S.W+n), a)
}

func SignExt(n int, a *Term) *Term {
	if n == 0 {
		return a
	}
	if v, ok := a.BVVal(); ok {
		w := uint(a.S.W)
		sv := int64(v<<(64-w)) >> (64 - w)
		return BVLit(uint64(sv), a.S.W+n)
	}
	return mk(fmt.Sprintf("(_ sign_extend %d)", n), BV(a.S.W+n), a)
}

// IntBin builds Int/Real arithmetic (+ - *), comparisons via IntCmp.
func IntBin(op string, a, b *Term) *Term { return mk(op, a.S, a, b) }
func IntCmp(op string, a, b *Term) *Term { return mk(op, BoolS, a, b) }

// App applies an uninterpreted (declared) function.
func App(fn string, s *Sort, args ...*Term) *Term { return mk(fn, s, args...) }

// Forall builds a real SMT quantifier (used only for second-opinion queries).
type Binder struct {
	Name string
	S    *Sort
}

// ---- traversal ----

// Walk visits every distinct subterm once.
func Walk(t *Term, seen map[*Term]bool, f func(*Term)) {
	if seen[t] {
		return
	}
	seen[t] = true
	for _, a := range t.Args {
		Walk(a, seen, f)
	}
	f(t)
}

// Subst replaces constants by terms.
func Subst(t *Term, m map[string]*Term, cache map[*Term]*Term) *Term {
	if r, ok := cache[t]; ok {
		return r
	}
	var r *Term
	switch t.Op {
	case "const":
		if v, ok := m[t.Name]; ok {
			r = v
		} else {
			r = t
		}
	case "lit":
		r = t
	default:
		changed := false
		args := make([]*Term, len(t.Args))
		for i, a := range t.Args {
			args[i] = Subst(a, m, cache)
			if args[i] != a {
				changed = true
			}
		}
		if changed {
			r = rebuild(t, args)
		} else {
			r = t
		}
	}
	cache[t] = r
	return r
}

func rebuild(t *Term, args []*Term) *Term {
	switch t.Op {
	case "not":
		return Not(args[0])
	case "and":
		return And(args...)
	case "or":
		return Or(args...)
	case "=>":
		return Implies(args[0], args[1])
	case "=":
		return Eq(args[0], args[1])
	case "ite":
		return Ite(args[0], args[1], args[2])
	case "select":
		return Select(args[0], args[1])
	case "store":
		return Store(args[0], args[1], args[2])
	case "bvadd", "bvsub", "bvmul", "bvand", "bvor", "bvxor", "bvshl", "bvlshr", "bvashr", "bvudiv", "bvurem", "bvsdiv", "bvsrem":
		return BVBin(t.Op, args[0], args[1])
	case "bvult", "bvule", "bvugt", "bvuge", "bvslt", "bvsle", "bvsgt", "bvsge":
		return BVCmp(t.Op, args[0], args[1])
	}
	return mk(t.Op, t.S, args...)
}

// Consts collects the declared symbols of a term.
func Consts(t *Term, seen map[*Term]bool, out map[string]*Sort) {
	Walk(t, seen, func(x *Term) {
		if x.Op == "const" {
			out[x.Name] = x.S
		}
	})
}

func sortedKeys[V any](m map[string]V) []string {
	ks := make([]string, 0, len(m))
	for k := range m {
		ks = append(ks, k)
	}
	sort.Strings(ks)
	return ks
}

// printDAG prints a term with let-free sharing by emitting auxiliary define-funs
// for large shared subterms. To keep things simple we rely on String() and
// accept duplication for moderately sized terms; definitions in Γ keep terms small.
