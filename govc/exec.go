package govc

import (
	"fmt"
	"go/ast"
	"go/token"
	"go/types"
	"sort"
	"strings"

	"golang.org/x/tools/go/ssa"
)

// Exec symbolically executes one function (one contract case) and collects obligations.
type Exec struct {
	P             *Program
	VC            *VC
	Top           *ssa.Function
	TopName       string
	Spec          *FuncSpec
	Case          *Case
	Props         []string
	initHeap      map[string]*Term
	oblOrd        map[string]int // (kind|expr) -> count of distinct sites
	siteOrd       map[string]int // site key -> ordinal
	depth         int
	stack         []*ssa.Function
	Entry         *State
	params        map[string]Value
	typeTags      map[string]int64
	tagTypes      map[int64]types.Type
	strLits       map[string]SliceV
	globals       map[string]Value
	inlinePath    string
	noOblige      int // >0: suppress obligations (used when evaluating assumed contracts)
	curPos        token.Pos
	epoch         int
	quietInv      map[string]bool
	topRets       []retPoint
	globalObjs    map[string]*ssa.Global
	epochNext     map[int]*Term
	lastChanField string
	opaquePure    map[string]bool
	curInstr      ssa.Instruction
	sidSeen       map[*Term]bool
	curNode       *node
	lastNodes     []*node
}

// ancestorsOf returns every DAG node through which an execution reaching node t may have passed.
func ancestorsOf(t interface{}) map[interface{}]bool {
	out := map[interface{}]bool{}
	n, ok := t.(*node)
	if !ok || n == nil {
		return out
	}
	work := []*node{n}
	for len(work) > 0 {
		c := work[len(work)-1]
		work = work[:len(work)-1]
		if c == nil || out[c] {
			continue
		}
		out[c] = true
		for _, e := range c.in {
			work = append(work, e.from)
		}
		if c.parent != nil {
			work = append(work, c.parent)
		}
		for _, ex := range c.extra {
			if !out[ex] {
				out[ex] = true
			}
		}
	}
	return out
}

func NewExec(p *Program, fn *ssa.Function, name string, fs *FuncSpec, c *Case) *Exec {
	x := &Exec{P: p, VC: NewVC(), Top: fn, TopName: name, Spec: fs, Case: c, initHeap: map[string]*Term{},
		oblOrd: map[string]int{}, siteOrd: map[string]int{}, params: map[string]Value{},
		typeTags: map[string]int64{}, tagTypes: map[int64]types.Type{}, strLits: map[string]SliceV{}, globals: map[string]Value{}}
	if c != nil {
		x.Props = c.Props
	}
	x.VC.Ancestors = ancestorsOf
	return x
}

// ---------- heap ----------

func (x *Exec) heap(st *State, key string, s *Sort) *Term {
	if t, ok := st.Heap[key]; ok {
		return t
	}
	// havocked before being materialised?
	ep := 0
	for k, e := range st.Havoc {
		if (key == k || strings.HasPrefix(key, k+".")) && e > ep {
			ep = e
		}
	}
	ikey := key
	if ep > 0 {
		ikey = fmt.Sprintf("@%d.%s", ep, key)
	}
	if t, ok := x.initHeap[ikey]; ok {
		return t
	}
	t := Const("H."+sanitize(ikey), s)
	x.initHeap[ikey] = t
	nextAt := Const("next0", IntS)
	if ep > 0 {
		if nx, ok := x.epochNext[ep]; ok {
			nextAt = nx
		}
	}
	x.refBoundFact(t, nextAt)
	return t
}

// refBoundFact: every reference stored in a heap component version is an object that existed when that version
// came into being (it is below the allocation watermark of that moment) — so objects allocated later are
// different from everything the version holds.
func (x *Exec) refBoundFact(c *Term, nextAt *Term) {
	if c.S.Kind != "Array" || c.S.Idx != IntS || nextAt == nil {
		return
	}
	save := x.VC.CurTag
	x.VC.CurTag = nil
	defer func() { x.VC.CurTag = save }()
	switch {
	case c.S.Elem == IntS:
		o := x.VC.Fresh("ro", IntS)
		x.VC.AssumeForall([]*Term{o}, True, And(IntCmp(">=", Select(c, o), IntLit(0)), IntCmp("<", Select(c, o), nextAt)), "ref-bound")
	case c.S.Elem.Kind == "Array" && c.S.Elem.Elem == IntS:
		o := x.VC.Fresh("ro", IntS)
		k := x.VC.Fresh("rk", c.S.Elem.Idx)
		e := Select(Select(c, o), k)
		x.VC.AssumeForall([]*Term{o, k}, True, And(IntCmp(">=", e, IntLit(0)), IntCmp("<", e, nextAt)), "ref-bound")
	}
}

func (x *Exec) setHeap(st *State, key string, t *Term, obj *Term) {
	st.Heap[key] = t
	delete(st.Shapes, key)
	st.Written[key] = append(st.Written[key], obj)
}

// shape records that a heap component currently equals store(base, obj, inner).
type shape struct{ base, obj, inner *Term }

// objGet returns the value of component key for object obj (select simplified through the shape).
func (x *Exec) objGet(st *State, key string, inner *Sort, obj *Term) *Term {
	if sh, ok := st.Shapes[key]; ok && sh.obj == obj {
		return sh.inner
	}
	return Select(x.heap(st, key, Arr(IntS, inner)), obj)
}

// objSet sets the value of component key for object obj.
func (x *Exec) objSet(st *State, key string, obj, val *Term) {
	cur := x.heap(st, key, Arr(IntS, val.S))
	base := cur
	if sh, ok := st.Shapes[key]; ok && sh.obj == obj {
		base = sh.base
	}
	in := x.VC.Def(key+".in", val)
	st.Heap[key] = x.VC.Def("H."+key, Store(base, obj, in))
	st.Shapes[key] = &shape{base: base, obj: obj, inner: in}
	st.Written[key] = append(st.Written[key], obj)
	x.recordWrite(st, key, obj, nil, nil)
}

// writeRec records one write to a heap component (for frame obligations discharged per write).
type writeRec struct {
	key         string
	obj, lo, hi *Term // lo/hi: absolute element index range [lo,hi) for element arrays; nil = the whole object / cell
	guard       *Term
	epoch       int
	fresh       bool // object allocated in this activation
	allocEpoch  int
}

func (x *Exec) recordWrite(st *State, key string, obj, lo, hi *Term) {
	if st.noRecord > 0 {
		return
	}
	g := st.G
	if g == nil {
		g = True
	}
	st.Writes = append(st.Writes, &writeRec{key: key, obj: obj, lo: lo, hi: hi, guard: g, epoch: st.CutEpoch, fresh: st.FreshObjs[obj] > 0, allocEpoch: st.FreshObjs[obj] - 1})
}

// objSetRange is objSet for a write that touches only element indices [lo,hi) of the object's inner array.
func (x *Exec) objSetRange(st *State, key string, obj, val, lo, hi *Term) {
	st.noRecord++
	x.objSet(st, key, obj, val)
	st.noRecord--
	x.recordWrite(st, key, obj, lo, hi)
}

func structKey(t types.Type) string {
	if p, ok := t.Underlying().(*types.Pointer); ok {
		t = p.Elem()
	}
	return typeName(t)
}

// loadComps reads a value of type ty whose components live at key+suffix indexed by obj.
func (x *Exec) loadField(st *State, owner string, fname string, ty types.Type, obj *Term, guard *Term) Value {
	v := fromComps(ty, func(suffix string, s *Sort) *Term {
		return x.VC.Def(fname+suffix, x.objGet(st, owner+"."+fname+suffix, s, obj))
	})
	x.assumeTypeInv(v, guard, st)
	return v
}

func (x *Exec) storeField(st *State, owner string, fname string, ty types.Type, obj *Term, v Value) bool {
	return toComps(ty, v, func(suffix string, tm *Term) {
		x.objSet(st, owner+"."+fname+suffix, obj, tm)
	})
}

func elemKey(elem types.Type) string { return "Elem<" + typeName(elem) + ">" }

func (x *Exec) loadElem(st *State, elem types.Type, arr, idx *Term, guard *Term) Value {
	v := fromComps(elem, func(suffix string, s *Sort) *Term {
		return x.VC.Def("e"+suffix, Select(x.objGet(st, elemKey(elem)+suffix, Arr(bv64, s), arr), idx))
	})
	x.assumeTypeInv(v, guard, st)
	return v
}

func (x *Exec) storeElem(st *State, elem types.Type, arr, idx *Term, v Value) bool {
	return toComps(elem, v, func(suffix string, tm *Term) {
		key := elemKey(elem) + suffix
		x.objSetRange(st, key, arr, Store(x.objGet(st, key, Arr(bv64, tm.S), arr), idx, tm), idx, BVBin("bvadd", idx, BVLit(1, 64)))
	})
}

// ---------- fresh values and type invariants ----------

var lim47 = BVLit(1<<47, 64)

func (x *Exec) freshValue(ty types.Type, hint string, guard *Term, st *State) Value {
	v := fromComps(ty, func(suffix string, s *Sort) *Term { return x.VC.Fresh(hint+suffix, s) })
	x.assumeTypeInv(v, guard, st)
	return v
}

// assumeTypeInv adds the type invariants of a (possibly arbitrary) value.
func (x *Exec) assumeTypeInv(v Value, guard *Term, st *State) {
	switch vv := v.(type) {
	case Scalar:
		if vv.T.S == IntS && vv.T.Op != "lit" {
			if ok, _ := isOpaque(vv.Ty); ok {
				return
			}
			x.assumeRef(vv.T, guard, st)
		}
	case SliceV:
		zero := BVLit(0, 64)
		if vv.Str {
			x.VC.Assume(guard, And(BVCmp("bvsle", zero, vv.Len), BVCmp("bvsle", vv.Len, lim47),
				BVCmp("bvsle", zero, vv.Off), BVCmp("bvsle", vv.Off, lim47)), "typeinv:string")
		} else {
			x.VC.Assume(guard, And(BVCmp("bvsle", zero, vv.Len), BVCmp("bvsle", vv.Len, vv.Cap), BVCmp("bvsle", vv.Cap, lim47),
				BVCmp("bvsle", zero, vv.Off), BVCmp("bvsle", vv.Off, lim47)), "typeinv:slice")
		}
		x.assumeRef(vv.Arr, guard, st)
		// nil slice: arr = 0 => len = cap = 0
		if vv.Str {
			x.VC.Assume(guard, Implies(Eq(vv.Arr, IntLit(0)), Eq(vv.Len, zero)), "typeinv:nilstr")
		} else {
			x.VC.Assume(guard, Implies(Eq(vv.Arr, IntLit(0)), And(Eq(vv.Len, zero), Eq(vv.Cap, zero))), "typeinv:nilslice")
		}
	case IfaceV:
		x.assumeRef(vv.Val, guard, st)
		x.VC.Assume(guard, IntCmp(">=", vv.Tag, IntLit(0)), "typeinv:tag")
		x.VC.Assume(guard, Implies(Eq(vv.Tag, IntLit(0)), Eq(vv.Val, IntLit(0))), "typeinv:niliface")
	case StructV:
		for _, f := range vv.F {
			x.assumeTypeInv(f, guard, st)
		}
	}
}

func (x *Exec) assumeRef(r *Term, guard *Term, st *State) {
	if r.Op == "lit" {
		return
	}
	if st == nil || st.Next == nil {
		x.VC.Assume(guard, IntCmp(">=", r, IntLit(0)), "typeinv:ref")
		return
	}
	x.VC.Assume(guard, And(IntCmp(">=", r, IntLit(0)), IntCmp("<", r, st.Next)), "typeinv:ref")
}

// alloc returns a fresh object reference distinct from every existing one.
func (x *Exec) alloc(st *State, hint string) *Term {
	r := st.Next
	st.FreshObjs[r] = st.CutEpoch + 1
	st.Next = x.VC.Def("next", IntBin("+", st.Next, IntLit(1)))
	_ = hint
	return r
}

// zeroValue builds the zero value of a type.
func (x *Exec) zeroValue(ty types.Type) Value {
	return fromComps(ty, func(suffix string, s *Sort) *Term { return zeroTerm(s) })
}

func zeroTerm(s *Sort) *Term {
	switch s.Kind {
	case "Bool":
		return False
	case "BV":
		return BVLit(0, s.W)
	case "Int":
		return IntLit(0)
	case "Real":
		return RealLit("0.0")
	}
	panic("zeroTerm " + s.String())
}

// ---------- obligations ----------

func (x *Exec) posOf(pos token.Pos) token.Position {
	if pos.IsValid() {
		return x.P.Fset.Position(pos)
	}
	return token.Position{}
}

// Oblige records a proof obligation.
func (x *Exec) Oblige(kind, expr string, site string, pos token.Pos, guard, goal *Term, props []string) *Obligation {
	if x.noOblige > 0 {
		return nil
	}
	if goal == True || guard == False {
		// still record (trivially discharged) so counts are stable
	}
	base := kind
	if expr != "" {
		base += ":" + expr
	}
	if x.inlinePath != "" {
		base += "@" + x.inlinePath
	}
	skey := base + "|" + site
	ord, ok := x.siteOrd[skey]
	if !ok {
		x.oblOrd[base]++
		ord = x.oblOrd[base]
		x.siteOrd[skey] = ord
	}
	id := x.TopName
	if x.Case != nil && x.Case.Name != "" {
		id += "[" + x.Case.Name + "]"
	}
	id += ":" + base
	if ord > 1 {
		id += fmt.Sprintf("#%d", ord)
	}
	if props == nil {
		props = x.Props
	}
	o := &Obligation{ID: id, Fn: x.TopName, Kind: kind, Expr: expr, Pos: x.posOf(pos), Props: props, Guard: guard, Goal: goal,
		NFacts: len(x.VC.Facts), vc: x.VC, x: x, Tag: x.VC.CurTag}
	if x.Case != nil {
		o.CaseName = x.Case.Name
	}
	x.VC.Obls = append(x.VC.Obls, o)
	return o
}

func (x *Exec) srcExpr(pos token.Pos, kinds ...string) string {
	return x.P.SourceText(pos, func(n ast.Node) bool {
		for _, k := range kinds {
			switch k {
			case "index":
				if _, ok := n.(*ast.IndexExpr); ok {
					return true
				}
			case "slice":
				if _, ok := n.(*ast.SliceExpr); ok {
					return true
				}
			case "call":
				if _, ok := n.(*ast.CallExpr); ok {
					return true
				}
			case "selector":
				if _, ok := n.(*ast.SelectorExpr); ok {
					return true
				}
			case "star":
				if _, ok := n.(*ast.StarExpr); ok {
					return true
				}
			case "binary":
				if _, ok := n.(*ast.BinaryExpr); ok {
					return true
				}
			case "typeassert":
				if _, ok := n.(*ast.TypeAssertExpr); ok {
					return true
				}
			case "expr":
				if _, ok := n.(ast.Expr); ok {
					return true
				}
			}
		}
		return false
	})
}

// ---------- DAG of a function ----------

type loopInfo struct {
	header  *ssa.BasicBlock
	body    map[*ssa.BasicBlock]bool
	ordinal int
	unroll  int
	invs    []*Clause
	decr    *Clause
	backs   []*ssa.BasicBlock
}

type node struct {
	b         *ssa.BasicBlock
	iter      int
	in        []*edge
	out       []*edge
	guard     *Term
	env       map[ssa.Value]Value
	st        *State
	done      bool
	idx       int
	dead      bool
	cutProved bool
	parent    *node   // caller node (for the entry node of an inlined callee)
	extra     []*node // nodes of callees inlined while executing this node
}

type edge struct {
	from, to *node
	cond     *Term // set when from is executed
	succIdx  int
}

type retPoint struct {
	node  *node
	guard *Term
	vals  []Value
	st    *State
}

func findLoops(fn *ssa.Function) []*loopInfo {
	byHeader := map[*ssa.BasicBlock]*loopInfo{}
	var loops []*loopInfo
	for _, b := range fn.Blocks {
		for _, s := range b.Succs {
			if s.Dominates(b) {
				li := byHeader[s]
				if li == nil {
					li = &loopInfo{header: s, body: map[*ssa.BasicBlock]bool{s: true}}
					byHeader[s] = li
					loops = append(loops, li)
				}
				li.backs = append(li.backs, b)
				// natural loop: all nodes reaching b without passing s
				var stack []*ssa.BasicBlock
				if !li.body[b] {
					li.body[b] = true
					stack = append(stack, b)
				}
				for len(stack) > 0 {
					n := stack[len(stack)-1]
					stack = stack[:len(stack)-1]
					for _, p := range n.Preds {
						if !li.body[p] {
							li.body[p] = true
							stack = append(stack, p)
						}
					}
				}
			}
		}
	}
	sort.Slice(loops, func(i, j int) bool { return loops[i].header.Index < loops[j].header.Index })
	for i, l := range loops {
		l.ordinal = i + 1
	}
	return loops
}

type funcCtx struct {
	fn          *ssa.Function
	loops       []*loopInfo
	inLoop      map[*ssa.BasicBlock]*loopInfo // innermost unrolled loop containing block
	cutHdr      map[*ssa.BasicBlock]*loopInfo
	cuts        map[*ssa.BasicBlock]*Clause
	clauses     []*Clause
	top         bool
	atcallSeen  map[*Clause]bool
	atcallReach map[ssa.Instruction]bool
	entryGuard  *Term
	rets        []retPoint
	path        string
}

// runFunc symbolically executes fn from state st under guard. Returns merged results/state/guard at return.
func (x *Exec) runFunc(fn *ssa.Function, args []Value, bindings []Value, st *State, guard *Term, clauses []*Clause, top bool) ([]Value, *State, *Term) {
	if fn.Blocks == nil {
		x.VC.Warnf("no body for %s: results havocked", fn.String())
		return nil, st, guard
	}
	fc := &funcCtx{fn: fn, clauses: clauses, top: top, entryGuard: guard, atcallSeen: map[*Clause]bool{}, atcallReach: map[ssa.Instruction]bool{}, inLoop: map[*ssa.BasicBlock]*loopInfo{}, cutHdr: map[*ssa.BasicBlock]*loopInfo{}, cuts: map[*ssa.BasicBlock]*Clause{}}
	fc.loops = findLoops(fn)
	for _, l := range fc.loops {
		for _, c := range clauses {
			if c.Loop == l.ordinal {
				switch c.Kind {
				case "unroll":
					l.unroll = c.N
				case "invariant":
					l.invs = append(l.invs, c)
				case "decreases":
					l.decr = c
				}
			}
		}
		if l.unroll > 0 {
			for b := range l.body {
				fc.inLoop[b] = l
			}
		} else {
			fc.cutHdr[l.header] = l
		}
	}
	// unrolled loops must be innermost and not contain cut loops
	for _, l := range fc.loops {
		if l.unroll > 0 {
			for _, m := range fc.loops {
				if m != l && l.body[m.header] {
					x.VC.Warnf("%s: unrolled loop %d contains loop %d (unsupported: treated as cut)", fn.Name(), l.ordinal, m.ordinal)
				}
			}
		}
	}
	// section cuts
	for _, c := range clauses {
		if c.Kind == "cut" {
			n := 0
			found := false
			for _, b := range fn.Blocks {
				if b.Comment == c.Block {
					n++
					if n == c.Ord {
						fc.cuts[b] = c
						found = true
					}
				}
			}
			if !found {
				x.VC.Warnf("%s: cut %s#%d not found", fn.Name(), c.Block, c.Ord)
				x.Oblige("cut-missing", fmt.Sprintf("%s#%d", c.Block, c.Ord), "", fn.Pos(), guard, False, nil)
			}
		}
	}
	for _, c := range clauses {
		if (c.Kind == "unroll" || c.Kind == "invariant") && c.Loop > len(fc.loops) {
			x.Oblige("loop-missing", fmt.Sprintf("loop %d", c.Loop), "", fn.Pos(), guard, False, nil)
		}
	}

	// build nodes
	nodes := map[string]*node{}
	var order []*node
	key := func(b *ssa.BasicBlock, it int) string { return fmt.Sprintf("%d/%d", b.Index, it) }
	var get func(b *ssa.BasicBlock, it int) *node
	var work []*node
	get = func(b *ssa.BasicBlock, it int) *node {
		k := key(b, it)
		if n, ok := nodes[k]; ok {
			return n
		}
		n := &node{b: b, iter: it}
		nodes[k] = n
		work = append(work, n)
		return n
	}
	entry := get(fn.Blocks[0], 0)
	type special struct {
		kind string // "back" (cut loop back edge), "unwind"
		loop *loopInfo
	}
	specials := map[*node]map[int]special{}
	for len(work) > 0 {
		n := work[len(work)-1]
		work = work[:len(work)-1]
		order = append(order, n)
		for si, s := range n.b.Succs {
			isBack := s.Dominates(n.b)
			ul := fc.inLoop[n.b]
			if isBack {
				if l := fc.cutHdr[s]; l != nil {
					if specials[n] == nil {
						specials[n] = map[int]special{}
					}
					specials[n][si] = special{"back", l}
					continue
				}
				// unrolled loop back edge
				l := fc.inLoop[s]
				if n.iter+1 > l.unroll {
					if specials[n] == nil {
						specials[n] = map[int]special{}
					}
					specials[n][si] = special{"unwind", l}
					continue
				}
				t := get(s, n.iter+1)
				e := &edge{from: n, to: t, succIdx: si}
				n.out = append(n.out, e)
				t.in = append(t.in, e)
				continue
			}
			it := 0
			if sl := fc.inLoop[s]; sl != nil && sl == ul {
				it = n.iter
			}
			t := get(s, it)
			e := &edge{from: n, to: t, succIdx: si}
			n.out = append(n.out, e)
			t.in = append(t.in, e)
		}
	}
	// topological order (Kahn), deterministic
	indeg := map[*node]int{}
	for _, n := range order {
		indeg[n] = len(n.in)
	}
	var ready []*node
	ready = append(ready, entry)
	var topo []*node
	for len(ready) > 0 {
		sort.Slice(ready, func(i, j int) bool {
			if ready[i].iter != ready[j].iter {
				return ready[i].iter < ready[j].iter
			}
			return ready[i].b.Index < ready[j].b.Index
		})
		n := ready[0]
		ready = ready[1:]
		topo = append(topo, n)
		for _, e := range n.out {
			indeg[e.to]--
			if indeg[e.to] == 0 {
				ready = append(ready, e.to)
			}
		}
	}
	if len(topo) != len(order) {
		x.VC.Warnf("%s: irreducible control flow; %d of %d nodes ordered", fn.Name(), len(topo), len(order))
	}

	// execute
	entry.parent = x.curNode
	x.lastNodes = topo
	for _, n := range topo {
		x.execNode(fc, n, entry, args, bindings, st, guard, specials[n] != nil, func(si int) (string, *loopInfo) {
			if sp, ok := specials[n][si]; ok {
				return sp.kind, sp.loop
			}
			return "", nil
		})
	}
	// merge returns
	if top {
		x.topRets = fc.rets
		for _, cl := range clauses {
			if (cl.Kind == "atcall" || cl.Kind == "ghostat") && !fc.atcallSeen[cl] {
				// the call site the clause talks about does not exist (any more): nothing was checked
				x.Oblige("atcall-missing", fmt.Sprintf("%s#%d", cl.Block, cl.Ord), "", fn.Pos(), guard, False, cl.Props)
			}
		}
	}
	if len(fc.rets) == 0 {
		return nil, st, False
	}
	r := fc.rets[0]
	vals, outSt, g := r.vals, r.st, r.guard
	for _, r2 := range fc.rets[1:] {
		outSt = x.mergeStates(r2.guard, r2.st, outSt)
		nv := make([]Value, len(vals))
		for i := range vals {
			nv[i] = x.mergeValues(r2.guard, r2.vals[i], vals[i], "ret")
		}
		vals = nv
		g = x.VC.Def("g.ret", Or(g, r2.guard))
	}
	return vals, outSt, g
}

// mergeStates returns c ? a : b.
func (x *Exec) mergeStates(c *Term, a, b *State) *State {
	n := b.Clone()
	keys := map[string]bool{}
	for k := range a.Heap {
		keys[k] = true
	}
	for k := range b.Heap {
		keys[k] = true
	}
	for k := range keys {
		av, aok := a.Heap[k]
		bv, bok := b.Heap[k]
		if !aok {
			av = x.heap(a, k, bv.S)
		}
		if !bok {
			bv = x.heap(b, k, av.S)
		}
		if av != bv {
			sa, sb := a.Shapes[k], b.Shapes[k]
			if sa != nil && sb != nil && sa.base == sb.base && sa.obj == sb.obj {
				in := x.VC.Def(k+".in", Ite(c, sa.inner, sb.inner))
				n.Heap[k] = x.VC.Def("H."+k, Store(sa.base, sa.obj, in))
				n.Shapes[k] = &shape{base: sa.base, obj: sa.obj, inner: in}
			} else {
				n.Heap[k] = x.VC.Def("H."+k, Ite(c, av, bv))
				delete(n.Shapes, k)
			}
		}
	}
	for k, av := range a.Cells {
		if bv, ok := b.Cells[k]; ok {
			n.Cells[k] = x.mergeValues(c, av, bv, "cell."+k)
		} else {
			n.Cells[k] = av
			n.CellTy[k] = a.CellTy[k]
		}
	}
	for k, av := range a.Vars {
		if bv, ok := b.Vars[k]; ok {
			n.Vars[k] = x.mergeValues(c, av, bv, "var."+k)
		} else {
			n.Vars[k] = av
		}
	}
	for k, av := range a.Written {
		n.Written[k] = append(n.Written[k], av...)
	}
	haveW := map[*writeRec]bool{}
	for _, w := range n.Writes {
		haveW[w] = true
	}
	for _, w := range a.Writes {
		if !haveW[w] {
			n.Writes = append(n.Writes, w)
		}
	}
	for k, v := range a.FreshObjs {
		n.FreshObjs[k] = v
	}
	if a.CutEpoch > n.CutEpoch {
		n.CutEpoch = a.CutEpoch
	}
	for k, av := range a.Ghost {
		if bv, ok := b.Ghost[k]; ok {
			if av != bv {
				n.Ghost[k] = x.VC.Def("G."+k, Ite(c, av, bv))
			}
		} else {
			n.Ghost[k] = av
		}
	}
	for k := range n.Locks {
		if !a.Locks[k] {
			// held on one path only: keep as held only if both
			delete(n.Locks, k)
			n.Locks["?"+k] = true
		}
	}
	for k := range a.Locks {
		if !b.Locks[k] && !strings.HasPrefix(k, "?") {
			n.Locks["?"+k] = true
		}
	}
	var newEpochs []int
	// components havocked at different times on the two paths: every component the engine has ever named under the
	// prefix is materialised in the merged state as ite(c, version on a, version on b)
	differ := func(k string) bool {
		ea, oka := a.Havoc[k]
		eb, okb := b.Havoc[k]
		return oka != okb || ea != eb
	}
	var dprefixes []string
	for k := range a.Havoc {
		if differ(k) {
			dprefixes = append(dprefixes, k)
		}
	}
	for k := range b.Havoc {
		if _, ina := a.Havoc[k]; !ina && differ(k) {
			dprefixes = append(dprefixes, k)
			n.Havoc[k] = b.Havoc[k]
		}
	}
	if len(dprefixes) > 0 {
		known := map[string]*Sort{}
		for ik, t := range x.initHeap {
			key := ik
			if strings.HasPrefix(ik, "@") {
				if p := strings.Index(ik, "."); p > 0 {
					key = ik[p+1:]
				}
			}
			known[key] = t.S
		}
		for key, srt := range known {
			if _, ok := n.Heap[key]; ok {
				if _, inA := a.Heap[key]; inA {
					if _, inB := b.Heap[key]; inB {
						continue
					}
				}
			}
			match := false
			for _, p := range dprefixes {
				if key == p || strings.HasPrefix(key, p+".") {
					match = true
				}
			}
			if !match {
				continue
			}
			av, bv := x.heap(a, key, srt), x.heap(b, key, srt)
			if av != bv {
				n.Heap[key] = x.VC.Def("H."+key, Ite(c, av, bv))
				delete(n.Shapes, key)
			} else {
				n.Heap[key] = av
			}
		}
	}
	for k, ea := range a.Havoc {
		if eb, ok := b.Havoc[k]; !ok || eb != ea {
			x.epoch++
			n.Havoc[k] = x.epoch
			newEpochs = append(newEpochs, x.epoch)
		}
	}
	if a.Next != b.Next {
		n.Next = x.VC.Def("next", Ite(c, a.Next, b.Next))
	}
	for _, ep := range newEpochs {
		if x.epochNext == nil {
			x.epochNext = map[int]*Term{}
		}
		x.epochNext[ep] = n.Next
	}
	// defers: union by identity
	have := map[interface{}]bool{}
	for _, d := range n.Defers {
		have[d.call] = true
	}
	for _, d := range a.Defers {
		if !have[d.call] {
			n.Defers = append(n.Defers, d)
		}
	}
	return n
}

func (x *Exec) execNode(fc *funcCtx, n *node, entry *node, args []Value, bindings []Value, st0 *State, guard0 *Term, hasSpecial bool, special func(int) (string, *loopInfo)) {
	fn := fc.fn
	x.curNode = n
	x.VC.CurTag = n
	// ---- incoming state ----
	if n == entry {
		n.guard = guard0
		n.st = st0.Clone()
		n.env = map[ssa.Value]Value{}
		for i, p := range fn.Params {
			if i < len(args) {
				n.env[p] = args[i]
				n.st.Vars[p.Name()] = args[i]
			}
		}
		for i, fv := range fn.FreeVars {
			if i < len(bindings) {
				n.env[fv] = bindings[i]
			}
		}
	} else {
		var live []*edge
		for _, e := range n.in {
			if e.from.done && !e.from.dead && e.cond != nil && e.cond != False {
				live = append(live, e)
			}
		}
		if len(live) == 0 {
			n.dead = true
			n.done = true
			return
		}
		// guards per edge
		eg := make([]*Term, len(live))
		for i, e := range live {
			eg[i] = And(e.from.guard, e.cond)
		}
		n.guard = x.VC.Def(fmt.Sprintf("g.%s.b%d.%d", fn.Name(), n.b.Index, n.iter), Or(eg...))
		// section cut: the assertion is proved on every incoming edge separately (no merged arrays in the goal)
		if c := fc.cuts[n.b]; c != nil && len(live) > 1 {
			for i, e := range live {
				pi := -1
				for k, p := range n.b.Preds {
					if p == e.from.b {
						pi = k
						break
					}
				}
				if pi < 0 {
					continue
				}
				sti := e.from.st.Clone()
				for _, ins := range n.b.Instrs {
					phi, ok := ins.(*ssa.Phi)
					if !ok {
						break
					}
					if phi.Comment != "" {
						sti.Vars[phi.Comment] = x.operandIn(e.from.env, phi.Edges[pi], e.from.st)
					}
				}
				x.VC.CurTag = e.from
				gi := x.VC.Def("g.edge", eg[i])
				env := x.localSpecEnv(sti, gi, false)
				g := env.EvalBool(c.Expr)
				x.reportSpecErrors(env, x.TopName, c)
				x.Oblige("cut", fmt.Sprintf("%s#%d: %s", c.Block, c.Ord, clauseLabel(c)), "", n.b.Instrs[0].Pos(), gi, g, c.Props)
				x.VC.CurTag = n
			}
			n.cutProved = true
		}
		n.st = live[0].from.st.Clone()
		n.env = map[ssa.Value]Value{}
		for k, v := range live[0].from.env {
			n.env[k] = v
		}
		for i := 1; i < len(live); i++ {
			n.st = x.mergeStates(eg[i], live[i].from.st, n.st)
			for k, v := range live[i].from.env {
				if ov, ok := n.env[k]; ok {
					if !sameValue(ov, v) {
						n.env[k] = x.mergeValues(eg[i], v, ov, "m."+k.Name())
					}
				} else {
					n.env[k] = v
				}
			}
		}
		// phis
		for _, ins := range n.b.Instrs {
			phi, ok := ins.(*ssa.Phi)
			if !ok {
				break
			}
			var val Value
			for i, e := range live {
				// find the predecessor index in the block
				pi := -1
				for k, p := range n.b.Preds {
					if p == e.from.b {
						pi = k
						break
					}
				}
				if pi < 0 {
					continue
				}
				v := x.operandIn(e.from.env, phi.Edges[pi], e.from.st)
				if i == 0 || val == nil {
					val = v
				} else {
					val = x.mergeValues(eg[i], v, val, "phi."+phi.Comment)
				}
			}
			n.env[phi] = val
			if phi.Comment != "" {
				n.st.Vars[phi.Comment] = val
			}
		}
	}
	st := n.st
	st.G = n.guard
	// ---- loop header of a cut loop ----
	if l := fc.cutHdr[n.b]; l != nil {
		x.cutLoopHeader(fc, n, l)
	}
	// ---- section cut ----
	if c := fc.cuts[n.b]; c != nil {
		x.sectionCut(fc, n, c)
	}
	// ---- instructions ----
	for _, ins := range n.b.Instrs {
		if _, ok := ins.(*ssa.Phi); ok {
			continue
		}
		if n.guard == False {
			break
		}
		x.execInstr(fc, n, ins)
		if n.dead {
			break
		}
	}
	n.done = true
	if n.dead {
		return
	}
	// ---- terminator: edge conditions ----
	last := n.b.Instrs[len(n.b.Instrs)-1]
	conds := make([]*Term, len(n.b.Succs))
	switch t := last.(type) {
	case *ssa.If:
		c := x.boolOf(x.operandIn(n.env, t.Cond, st))
		conds[0] = c
		conds[1] = Not(c)
	case *ssa.Jump:
		conds[0] = True
	}
	for _, e := range n.out {
		e.cond = conds[e.succIdx]
	}
	if hasSpecial {
		for si := range n.b.Succs {
			kind, l := special(si)
			switch kind {
			case "unwind":
				x.Oblige("unwind", fmt.Sprintf("loop %d unroll %d", l.ordinal, l.unroll), fmt.Sprint(l.header.Index), l.header.Instrs[0].Pos(), And(n.guard, conds[si]), False, nil)
			case "back":
				x.assertInvAtBackEdge(fc, n, l, conds[si])
			}
		}
	}
}

func sameValue(a, b Value) bool {
	switch av := a.(type) {
	case Scalar:
		bv, ok := b.(Scalar)
		return ok && av.T == bv.T
	case SliceV:
		bv, ok := b.(SliceV)
		return ok && av.Arr == bv.Arr && av.Off == bv.Off && av.Len == bv.Len && av.Cap == bv.Cap
	case IfaceV:
		bv, ok := b.(IfaceV)
		return ok && av.Tag == bv.Tag && av.Val == bv.Val
	case LocV:
		bv, ok := b.(LocV)
		return ok && av.Kind == bv.Kind && av.Obj == bv.Obj && av.Idx == bv.Idx && av.Cell == bv.Cell && fmt.Sprint(av.Path) == fmt.Sprint(bv.Path)
	case ClosureV:
		bv, ok := b.(ClosureV)
		return ok && av.Fn == bv.Fn && av.Ref == bv.Ref
	case StructV:
		bv, ok := b.(StructV)
		if !ok || len(av.F) != len(bv.F) {
			return false
		}
		for i := range av.F {
			if !sameValue(av.F[i], bv.F[i]) {
				return false
			}
		}
		return true
	case TupleV:
		bv, ok := b.(TupleV)
		if !ok || len(av) != len(bv) {
			return false
		}
		for i := range av {
			if !sameValue(av[i], bv[i]) {
				return false
			}
		}
		return true
	}
	return false
}

func (x *Exec) boolOf(v Value) *Term {
	if s, ok := v.(Scalar); ok && s.T.S == BoolS {
		return s.T
	}
	return x.VC.Fresh("unkbool", BoolS)
}

// PrintLoops lists loop headers and block comments (for writing contracts).
func PrintLoops(fn *ssa.Function) {
	for _, l := range findLoops(fn) {
		fmt.Printf("loop %d: header block %d (%s), %d blocks\n", l.ordinal, l.header.Index, l.header.Comment, len(l.body))
	}
	cnt := map[string]int{}
	for _, b := range fn.Blocks {
		cnt[b.Comment]++
		fmt.Printf("block %d: %s#%d\n", b.Index, b.Comment, cnt[b.Comment])
	}
}
