package govc

import (
	"fmt"
	"go/ast"
	"go/constant"
	"go/token"
	"go/types"
	"strconv"

	"golang.org/x/tools/go/ssa"
)

// UConst is an untyped constant in a contract expression.
type UConst struct{ V constant.Value }

// SpecEnv is the environment for evaluating a contract expression.
type SpecEnv struct {
	x          *Exec
	vars       map[string]Value
	st         *State
	old        *State
	guard      *Term // context guard for assumptions generated while evaluating
	assume     bool  // true: expression is being assumed (forall => fact); false: asserted (forall => skolem)
	neg        bool  // polarity flipped
	ante       []*Term
	pos        token.Pos
	errs       *[]string
	noQuant    bool
	outerVars  *[]*Term        // non-nil inside the body of an assumed universal quantifier: inner universals are prenexed
	localFirst bool            // identifiers resolve to current local variables before parameters
	shadow     map[string]bool // names bound by quantifiers (take precedence over locals)
	fn         *ssa.Function
	depth      int
	freshBase  *Term // call sites: fresh(x) in an assumed postcondition means allocated by the callee (>= watermark at the call)
}

func (e *SpecEnv) errorf(format string, a ...interface{}) {
	*e.errs = append(*e.errs, fmt.Sprintf(format, a...))
}

func (e *SpecEnv) clone() *SpecEnv {
	n := *e
	n.vars = map[string]Value{}
	for k, v := range e.vars {
		n.vars[k] = v
	}
	return &n
}

var tyInt = types.Typ[types.Int]
var tyUint64 = types.Typ[types.Uint64]
var tyBool = types.Typ[types.Bool]
var tyByte = types.Typ[types.Uint8]

// EvalBool evaluates a contract expression to a Bool term.
func (e *SpecEnv) EvalBool(ex ast.Expr) *Term {
	v := e.eval(ex)
	if s, ok := v.(Scalar); ok && s.T.S == BoolS {
		return s.T
	}
	if u, ok := v.(UConst); ok && u.V.Kind() == constant.Bool {
		if constant.BoolVal(u.V) {
			return True
		}
		return False
	}
	e.errorf("expression is not boolean: %s (%T)", exprText(ex), v)
	return e.x.VC.Fresh("specerr", BoolS)
}

func exprText(ex ast.Expr) string {
	return types.ExprString(ex)
}

func (e *SpecEnv) coerce(a, b Value) (Value, Value) {
	ua, aIsU := a.(UConst)
	ub, bIsU := b.(UConst)
	if aIsU && !bIsU {
		return e.constAs(ua, b), b
	}
	if bIsU && !aIsU {
		return a, e.constAs(ub, a)
	}
	return a, b
}

func (e *SpecEnv) constAs(u UConst, like Value) Value {
	switch l := like.(type) {
	case Scalar:
		switch l.T.S.Kind {
		case "BV":
			var v uint64
			if i, ok := constant.Int64Val(constant.ToInt(u.V)); ok {
				v = uint64(i)
			} else if ui, ok := constant.Uint64Val(constant.ToInt(u.V)); ok {
				v = ui
			}
			return Scalar{T: BVLit(v, l.T.S.W), Ty: l.Ty}
		case "Int":
			i, _ := constant.Int64Val(constant.ToInt(u.V))
			return Scalar{T: IntLit(i), Ty: l.Ty}
		case "Real":
			f, _ := constant.Float64Val(u.V)
			return Scalar{T: RealLit(realText(f)), Ty: l.Ty}
		case "Bool":
			if constant.BoolVal(u.V) {
				return Scalar{T: True, Ty: tyBool}
			}
			return Scalar{T: False, Ty: tyBool}
		}
	}
	return like
}

func (e *SpecEnv) defaultConst(u UConst) Value {
	switch u.V.Kind() {
	case constant.Bool:
		if constant.BoolVal(u.V) {
			return Scalar{T: True, Ty: tyBool}
		}
		return Scalar{T: False, Ty: tyBool}
	case constant.Int:
		i, ok := constant.Int64Val(u.V)
		if !ok {
			ui, _ := constant.Uint64Val(u.V)
			return Scalar{T: BVLit(ui, 64), Ty: tyUint64}
		}
		return Scalar{T: BVLit(uint64(i), 64), Ty: tyInt}
	case constant.Float:
		f, _ := constant.Float64Val(u.V)
		return Scalar{T: RealLit(realText(f)), Ty: types.Typ[types.Float64]}
	}
	return UnknownV{}
}

func (e *SpecEnv) eval(ex ast.Expr) Value {
	x := e.x
	switch n := ex.(type) {
	case *ast.ParenExpr:
		return e.eval(n.X)
	case *ast.TypeAssertExpr:
		// x.(*T): the value of interface x viewed as *T (the tag is asserted separately with typeis)
		v := e.eval(n.X)
		if iv, ok := v.(IfaceV); ok {
			if st, ok := n.Type.(*ast.StarExpr); ok {
				if id, ok := st.X.(*ast.Ident); ok {
					if t := x.P.LookupType(id.Name); t != nil {
						return Scalar{T: iv.Val, Ty: types.NewPointer(t)}
					}
				}
			}
		}
		e.errorf("unsupported type assertion in contract")
		return UnknownV{}
	case *ast.BasicLit:
		switch n.Kind {
		case token.INT, token.FLOAT, token.CHAR:
			return UConst{constant.MakeFromLiteral(n.Value, n.Kind, 0)}
		case token.STRING:
			s, _ := strconv.Unquote(n.Value)
			return x.stringLit(s, types.Typ[types.String])
		}
	case *ast.Ident:
		switch n.Name {
		case "true":
			return Scalar{T: True, Ty: tyBool}
		case "false":
			return Scalar{T: False, Ty: tyBool}
		case "nil":
			return UConst{constant.MakeInt64(0)}
		}
		if e.localFirst && !e.shadow[n.Name] && e.st != nil {
			if v, ok := e.st.Vars[n.Name]; ok {
				return v
			}
		}
		if v, ok := e.vars[n.Name]; ok {
			return v
		}
		if e.st != nil {
			if v, ok := e.st.Vars[n.Name]; ok {
				return v
			}
		}
		// package-level: constants, globals
		if obj := x.P.Pkg.Pkg.Scope().Lookup(n.Name); obj != nil {
			return e.pkgObject(obj)
		}
		e.errorf("unknown identifier %s", n.Name)
		return UnknownV{}
	case *ast.UnaryExpr:
		switch n.Op {
		case token.NOT:
			sub := *e
			sub.neg = !e.neg
			return Scalar{T: Not(sub.EvalBool(n.X)), Ty: tyBool}
		case token.SUB:
			v := e.eval(n.X)
			if u, ok := v.(UConst); ok {
				return UConst{constant.UnaryOp(token.SUB, u.V, 0)}
			}
			if s, ok := v.(Scalar); ok && s.T.S.Kind == "BV" {
				return Scalar{T: BVNeg(s.T), Ty: s.Ty}
			}
		case token.XOR:
			v := e.eval(n.X)
			if s, ok := v.(Scalar); ok && s.T.S.Kind == "BV" {
				return Scalar{T: BVNot(s.T), Ty: s.Ty}
			}
		case token.AND:
			// &x.f : location
			return e.evalLoc(n.X)
		}
	case *ast.StarExpr:
		p := e.eval(n.X)
		return e.deref(p)
	case *ast.BinaryExpr:
		return e.evalBinary(n)
	case *ast.SelectorExpr:
		// package-qualified?
		if id, ok := n.X.(*ast.Ident); ok {
			if _, isVar := e.vars[id.Name]; !isVar {
				if e.st == nil || e.st.Vars[id.Name] == nil {
					if v, ok := e.qualified(id.Name, n.Sel.Name); ok {
						return v
					}
				}
			}
		}
		base := e.eval(n.X)
		return e.selectField(base, n.Sel.Name)
	case *ast.IndexExpr:
		base := e.eval(n.X)
		idx := e.eval(n.Index)
		return e.index(base, idx)
	case *ast.SliceExpr:
		base := e.eval(n.X)
		sl, ok := base.(SliceV)
		if !ok {
			e.errorf("slice of non-slice %s", exprText(n.X))
			return UnknownV{}
		}
		lo := BVLit(0, 64)
		hi := sl.Len
		if n.Low != nil {
			lo = e.idxTerm(e.eval(n.Low))
		}
		if n.High != nil {
			hi = e.idxTerm(e.eval(n.High))
		}
		r := SliceV{Arr: sl.Arr, Off: BVBin("bvadd", sl.Off, lo), Len: BVBin("bvsub", hi, lo), Ty: sl.Ty, Str: sl.Str}
		if !sl.Str {
			r.Cap = BVBin("bvsub", sl.Cap, lo)
		}
		return r
	case *ast.CallExpr:
		return e.evalCall(n)
	}
	e.errorf("unsupported contract expression %s (%T)", exprText(ex), ex)
	return UnknownV{}
}

func (e *SpecEnv) pkgObject(obj types.Object) Value {
	x := e.x
	switch o := obj.(type) {
	case *types.Const:
		if b, ok := o.Type().Underlying().(*types.Basic); ok && b.Info()&types.IsUntyped == 0 {
			if s := sortOfBasic(b); s != nil && s.Kind == "BV" {
				i, _ := constant.Int64Val(constant.ToInt(o.Val()))
				return Scalar{T: BVLit(uint64(i), s.W), Ty: o.Type()}
			}
			if b.Info()&types.IsString != 0 {
				return x.stringLit(constant.StringVal(o.Val()), o.Type())
			}
		}
		if o.Val().Kind() == constant.String {
			return x.stringLit(constant.StringVal(o.Val()), types.Typ[types.String])
		}
		return UConst{o.Val()}
	case *types.Var:
		// global variable
		pk := x.P.Prog.Package(o.Pkg())
		if pk != nil {
			if g, ok := pk.Members[o.Name()].(*ssa.Global); ok {
				if v, ok := x.sentinel(g); ok {
					return v
				}
				lv := LocV{Kind: "global", Cell: "global:" + o.Pkg().Path() + "." + o.Name(), Ty: g.Type()}
				return e.deref(lv)
			}
		}
	}
	e.errorf("unsupported package object %s", obj.Name())
	return UnknownV{}
}

func (e *SpecEnv) qualified(pkg, name string) (Value, bool) {
	x := e.x
	for path, pp := range x.P.AllPkgs {
		if pp.Name == pkg || path == pkg {
			if obj := pp.Types.Scope().Lookup(name); obj != nil {
				switch o := obj.(type) {
				case *types.Var:
					sp := x.P.Prog.Package(o.Pkg())
					if sp != nil {
						if g, ok := sp.Members[name].(*ssa.Global); ok {
							if v, ok := x.sentinel(g); ok {
								return v, true
							}
						}
					}
				case *types.Const:
					return UConst{o.Val()}, true
				}
			}
		}
	}
	return nil, false
}

func (e *SpecEnv) idxTerm(v Value) *Term {
	switch s := v.(type) {
	case UConst:
		i, _ := constant.Int64Val(constant.ToInt(s.V))
		return BVLit(uint64(i), 64)
	case Scalar:
		if s.T.S.Kind == "BV" {
			if s.T.S.W == 64 {
				return s.T
			}
			if isSigned(s.Ty) {
				return SignExt(64-s.T.S.W, s.T)
			}
			return ZeroExt(64-s.T.S.W, s.T)
		}
	}
	e.errorf("bad index value %T", v)
	return e.x.VC.Fresh("specerr", bv64)
}

func (e *SpecEnv) deref(p Value) Value {
	x := e.x
	st := e.st
	switch pv := p.(type) {
	case LocV:
		elem := pv.Ty.Underlying().(*types.Pointer).Elem()
		switch pv.Kind {
		case "box":
			return x.loadFieldQuiet(st, "Cell", typeName(elem), elem, pv.Obj)
		case "field":
			return x.loadFieldQuiet(st, pv.Outer, fieldPathName(pv.ST, pv.Path), elem, pv.Obj)
		case "elem":
			return x.loadElemQuiet(st, elem, pv.Obj, pv.Idx)
		case "cell", "global":
			if v, ok := st.Cells[pv.Cell]; ok {
				return v
			}
			if v, ok := x.globals[pv.Cell]; ok {
				return v
			}
			v := x.freshValue(elem, sanitize(pv.Cell), True, nil)
			x.globals[pv.Cell] = v
			return v
		}
	case Scalar:
		if pt, ok := pv.Ty.Underlying().(*types.Pointer); ok {
			if stt, ok := pt.Elem().Underlying().(*types.Struct); ok {
				sv := StructV{Ty: pt.Elem()}
				for i := 0; i < stt.NumFields(); i++ {
					f := stt.Field(i)
					sv.F = append(sv.F, x.loadFieldQuiet(st, typeName(pt.Elem()), f.Name(), f.Type(), pv.T))
				}
				return sv
			}
			return x.loadFieldQuiet(st, "Cell", typeName(pt.Elem()), pt.Elem(), pv.T)
		}
	}
	e.errorf("cannot dereference %T", p)
	return UnknownV{}
}

// loadFieldQuiet reads a field without generating names/assumptions (for specs).
func (x *Exec) loadFieldQuiet(st *State, owner, fname string, ty types.Type, obj *Term) Value {
	v := fromComps(ty, func(suffix string, s *Sort) *Term {
		return x.objGet(st, owner+"."+fname+suffix, s, obj)
	})
	x.quietTypeInv(v, st)
	return v
}

// quietTypeInv assumes the (state-independent) type invariants of a value read in a contract expression.
func (x *Exec) quietTypeInv(v Value, st *State) {
	// The value may have been stored on one path only (e.g. s = s[1:] under a bounds check): its invariants hold
	// under the guard of the state it is read from, not unconditionally.
	guard := True
	if st != nil && st.G != nil {
		guard = st.G
	}
	if sc, ok := v.(Scalar); ok && sc.T.S == IntS && sc.T.Op != "lit" && st != nil && st.Next != nil {
		if op, _ := isOpaque(sc.Ty); op {
			return
		}
		k := sc.T.String() + "|" + st.Next.String() + "|" + guard.String()
		if x.quietInv == nil {
			x.quietInv = map[string]bool{}
		}
		if !x.quietInv[k] {
			x.quietInv[k] = true
			x.assumeRef(sc.T, guard, st)
		}
		return
	}
	if sl, ok := v.(SliceV); ok {
		k := sl.Len.String() + "|" + sl.Arr.String() + "|" + guard.String()
		if st != nil && st.Next != nil {
			k += "|" + st.Next.String()
		}
		if sl.Cap != nil {
			k += "|" + sl.Cap.String()
		}
		if x.quietInv == nil {
			x.quietInv = map[string]bool{}
		}
		if x.quietInv[k] {
			return
		}
		x.quietInv[k] = true
		x.assumeTypeInv(v, guard, st)
	}
}

func (x *Exec) loadElemQuiet(st *State, elem types.Type, arr, idx *Term) Value {
	v := fromComps(elem, func(suffix string, s *Sort) *Term {
		return Select(x.objGet(st, elemKey(elem)+suffix, Arr(bv64, s), arr), idx)
	})
	x.quietTypeInv(v, st)
	return v
}

func (e *SpecEnv) evalLoc(ex ast.Expr) Value {
	switch n := ex.(type) {
	case *ast.SelectorExpr:
		base := e.eval(n.X)
		if s, ok := base.(Scalar); ok {
			if pt, ok := s.Ty.Underlying().(*types.Pointer); ok {
				if stt, ok := pt.Elem().Underlying().(*types.Struct); ok {
					for i := 0; i < stt.NumFields(); i++ {
						if stt.Field(i).Name() == n.Sel.Name {
							return LocV{Kind: "field", Obj: s.T, ST: stt, Path: []int{i}, Ty: types.NewPointer(stt.Field(i).Type()), Outer: typeName(pt.Elem())}
						}
					}
				}
			}
		}
		if lv, ok := base.(LocV); ok && lv.Kind == "field" {
			cur := lv.ST
			for _, p := range lv.Path {
				cur = cur.Field(p).Type().Underlying().(*types.Struct)
			}
			for i := 0; i < cur.NumFields(); i++ {
				if cur.Field(i).Name() == n.Sel.Name {
					r := lv
					r.Path = append(append([]int{}, lv.Path...), i)
					r.Ty = types.NewPointer(cur.Field(i).Type())
					return r
				}
			}
		}
	}
	e.errorf("cannot take address of %s", exprText(ex))
	return UnknownV{}
}

func (e *SpecEnv) selectField(base Value, name string) Value {
	x := e.x
	switch b := base.(type) {
	case Scalar:
		pt, ok := b.Ty.Underlying().(*types.Pointer)
		if !ok {
			break
		}
		stt, ok := pt.Elem().Underlying().(*types.Struct)
		if !ok {
			break
		}
		for i := 0; i < stt.NumFields(); i++ {
			f := stt.Field(i)
			if f.Name() == name {
				if _, isStruct := f.Type().Underlying().(*types.Struct); isStruct {
					if ok, s := isOpaque(f.Type()); !ok || s == nil {
						return LocV{Kind: "field", Obj: b.T, ST: stt, Path: []int{i}, Ty: types.NewPointer(f.Type()), Outer: typeName(pt.Elem())}
					}
				}
				return x.loadFieldQuiet(e.st, typeName(pt.Elem()), f.Name(), f.Type(), b.T)
			}
		}
		// promoted fields through embedded pointers
		for i := 0; i < stt.NumFields(); i++ {
			f := stt.Field(i)
			if f.Embedded() {
				inner := x.loadFieldQuiet(e.st, typeName(pt.Elem()), f.Name(), f.Type(), b.T)
				sub := *e
				var tmp []string
				sub.errs = &tmp
				r := sub.selectField(inner, name)
				if len(tmp) == 0 {
					return r
				}
			}
		}
	case StructV:
		stt := b.Ty.Underlying().(*types.Struct)
		for i := 0; i < stt.NumFields(); i++ {
			if stt.Field(i).Name() == name && i < len(b.F) {
				return b.F[i]
			}
		}
	case LocV:
		if b.Kind == "field" {
			cur := b.ST
			for _, p := range b.Path {
				cur = cur.Field(p).Type().Underlying().(*types.Struct)
			}
			for i := 0; i < cur.NumFields(); i++ {
				if cur.Field(i).Name() == name {
					path := append(append([]int{}, b.Path...), i)
					return x.loadFieldQuiet(e.st, b.Outer, fieldPathName(b.ST, path), cur.Field(i).Type(), b.Obj)
				}
			}
		}
	}
	e.errorf("cannot select .%s from %T", name, base)
	return UnknownV{}
}

func (e *SpecEnv) index(base, idx Value) Value {
	x := e.x
	switch b := base.(type) {
	case SliceV:
		var elem types.Type = tyByte
		if !b.Str {
			if st, ok := b.Ty.Underlying().(*types.Slice); ok {
				elem = st.Elem()
			}
		}
		i := e.idxTerm(idx)
		return x.loadElemQuiet(e.st, elem, b.Arr, BVBin("bvadd", b.Off, i))
	case Scalar:
		if mt, ok := b.Ty.Underlying().(*types.Map); ok {
			k := x.mapKeyTerm(idx, mt.Key(), e)
			return x.mapLoadQuiet(e.st, mt, b.T, k)
		}
	}
	e.errorf("cannot index %T", base)
	return UnknownV{}
}

func (e *SpecEnv) evalBinary(n *ast.BinaryExpr) Value {
	x := e.x
	switch n.Op {
	case token.LAND:
		return Scalar{T: And(e.EvalBool(n.X), e.EvalBool(n.Y)), Ty: tyBool}
	case token.LOR:
		le := *e
		le.noQuant = true
		l := le.EvalBool(n.X)
		re := *e
		if e.neg {
			re.noQuant = true
		} else {
			re.ante = append(append([]*Term{}, e.ante...), Not(l))
		}
		return Scalar{T: Or(l, re.EvalBool(n.Y)), Ty: tyBool}
	}
	a, b := e.eval(n.X), e.eval(n.Y)
	ua, aU := a.(UConst)
	ub, bU := b.(UConst)
	if aU && bU {
		switch n.Op {
		case token.EQL, token.NEQ, token.LSS, token.LEQ, token.GTR, token.GEQ:
			return UConst{constant.MakeBool(constant.Compare(ua.V, n.Op, ub.V))}
		case token.SHL, token.SHR:
			s, _ := constant.Uint64Val(ub.V)
			return UConst{constant.Shift(ua.V, n.Op, uint(s))}
		case token.QUO:
			if ua.V.Kind() == constant.Int && ub.V.Kind() == constant.Int {
				return UConst{constant.BinaryOp(ua.V, token.QUO_ASSIGN, ub.V)}
			}
		}
		return UConst{constant.BinaryOp(ua.V, n.Op, ub.V)}
	}
	// nil comparisons with interfaces / slices
	if iv, ok := a.(IfaceV); ok && bU {
		return e.cmpNil(n.Op, Eq(iv.Tag, IntLit(0)))
	}
	if iv, ok := b.(IfaceV); ok && aU {
		return e.cmpNil(n.Op, Eq(iv.Tag, IntLit(0)))
	}
	if sv, ok := a.(SliceV); ok && bU {
		return e.cmpNil(n.Op, Eq(sv.Arr, IntLit(0)))
	}
	// addresses of local objects (&x, new(T) of an opaque type): compare their object references
	if lv, ok := a.(LocV); ok && lv.Obj != nil {
		a = Scalar{T: lv.Obj, Ty: lv.Ty}
	}
	if lv, ok := b.(LocV); ok && lv.Obj != nil {
		b = Scalar{T: lv.Obj, Ty: lv.Ty}
	}
	if cv, ok := a.(ClosureV); ok {
		a = Scalar{T: cv.Ref, Ty: cv.Ty}
	}
	if cv, ok := b.(ClosureV); ok {
		b = Scalar{T: cv.Ref, Ty: cv.Ty}
	}
	a, b = e.coerce(a, b)
	as, aok := a.(Scalar)
	bs, bok := b.(Scalar)
	if aok && bok {
		if as.T.S.Kind == "BV" && bs.T.S.Kind == "BV" {
			if n.Op == token.SHL || n.Op == token.SHR {
				cnt := bs.T
				w := as.T.S.W
				if cnt.S.W < w {
					cnt = ZeroExt(w-cnt.S.W, cnt)
				} else if cnt.S.W > w {
					cnt = Extract(w-1, 0, cnt)
				}
				if n.Op == token.SHL {
					return Scalar{T: BVBin("bvshl", as.T, cnt), Ty: as.Ty}
				}
				if isSigned(as.Ty) {
					return Scalar{T: BVBin("bvashr", as.T, cnt), Ty: as.Ty}
				}
				return Scalar{T: BVBin("bvlshr", as.T, cnt), Ty: as.Ty}
			}
			if as.T.S.W != bs.T.S.W {
				e.errorf("width mismatch in %s", exprText(n))
				return UnknownV{}
			}
			signed := as.Ty != nil && isSigned(as.Ty)
			if as.Ty == nil && bs.Ty != nil {
				signed = isSigned(bs.Ty)
			}
			ty := as.Ty
			if ty == nil {
				ty = bs.Ty
			}
			switch n.Op {
			case token.ADD:
				return Scalar{T: BVBin("bvadd", as.T, bs.T), Ty: ty}
			case token.SUB:
				return Scalar{T: BVBin("bvsub", as.T, bs.T), Ty: ty}
			case token.MUL:
				return Scalar{T: BVBin("bvmul", as.T, bs.T), Ty: ty}
			case token.QUO:
				return Scalar{T: BVBin(pick(signed, "bvsdiv", "bvudiv"), as.T, bs.T), Ty: ty}
			case token.REM:
				return Scalar{T: BVBin(pick(signed, "bvsrem", "bvurem"), as.T, bs.T), Ty: ty}
			case token.AND:
				return Scalar{T: BVBin("bvand", as.T, bs.T), Ty: ty}
			case token.OR:
				return Scalar{T: BVBin("bvor", as.T, bs.T), Ty: ty}
			case token.XOR:
				return Scalar{T: BVBin("bvxor", as.T, bs.T), Ty: ty}
			case token.EQL:
				return Scalar{T: Eq(as.T, bs.T), Ty: tyBool}
			case token.NEQ:
				return Scalar{T: Not(Eq(as.T, bs.T)), Ty: tyBool}
			case token.LSS:
				return Scalar{T: BVCmp(pick(signed, "bvslt", "bvult"), as.T, bs.T), Ty: tyBool}
			case token.LEQ:
				return Scalar{T: BVCmp(pick(signed, "bvsle", "bvule"), as.T, bs.T), Ty: tyBool}
			case token.GTR:
				return Scalar{T: BVCmp(pick(signed, "bvsgt", "bvugt"), as.T, bs.T), Ty: tyBool}
			case token.GEQ:
				return Scalar{T: BVCmp(pick(signed, "bvsge", "bvuge"), as.T, bs.T), Ty: tyBool}
			}
		}
		if as.T.S == BoolS && bs.T.S == BoolS {
			switch n.Op {
			case token.EQL:
				return Scalar{T: Eq(as.T, bs.T), Ty: tyBool}
			case token.NEQ:
				return Scalar{T: Not(Eq(as.T, bs.T)), Ty: tyBool}
			}
		}
		if (as.T.S == IntS && bs.T.S == IntS) || (as.T.S == RealS && bs.T.S == RealS) {
			switch n.Op {
			case token.EQL:
				return Scalar{T: Eq(as.T, bs.T), Ty: tyBool}
			case token.NEQ:
				return Scalar{T: Not(Eq(as.T, bs.T)), Ty: tyBool}
			case token.LSS:
				return Scalar{T: IntCmp("<", as.T, bs.T), Ty: tyBool}
			case token.LEQ:
				return Scalar{T: IntCmp("<=", as.T, bs.T), Ty: tyBool}
			case token.GTR:
				return Scalar{T: IntCmp(">", as.T, bs.T), Ty: tyBool}
			case token.GEQ:
				return Scalar{T: IntCmp(">=", as.T, bs.T), Ty: tyBool}
			case token.ADD:
				return Scalar{T: IntBin("+", as.T, bs.T), Ty: as.Ty}
			case token.SUB:
				return Scalar{T: IntBin("-", as.T, bs.T), Ty: as.Ty}
			case token.MUL:
				return Scalar{T: IntBin("*", as.T, bs.T), Ty: as.Ty}
			}
		}
	}
	ai, aiok := a.(IfaceV)
	bi, biok := b.(IfaceV)
	if aiok && biok {
		eq := And(Eq(ai.Tag, bi.Tag), Eq(ai.Val, bi.Val))
		if n.Op == token.NEQ {
			eq = Not(eq)
		}
		return Scalar{T: eq, Ty: tyBool}
	}
	asl, aslok := a.(SliceV)
	bsl, bslok := b.(SliceV)
	if aslok && bslok && asl.Str && bsl.Str && (n.Op == token.EQL || n.Op == token.NEQ) {
		eq := x.strEq(nil, asl, bsl)
		if n.Op == token.NEQ {
			eq = Not(eq)
		}
		return Scalar{T: eq, Ty: tyBool}
	}
	e.errorf("unsupported binary %s on %T,%T in %s", n.Op, a, b, exprText(n))
	return UnknownV{}
}

func (e *SpecEnv) cmpNil(op token.Token, isNil *Term) Value {
	if op == token.NEQ {
		return Scalar{T: Not(isNil), Ty: tyBool}
	}
	return Scalar{T: isNil, Ty: tyBool}
}

func (e *SpecEnv) typeByName(name string) types.Type {
	switch name {
	case "uint64":
		return tyUint64
	case "int":
		return tyInt
	case "byte", "uint8":
		return tyByte
	case "bool":
		return tyBool
	case "int64":
		return types.Typ[types.Int64]
	case "uint32":
		return types.Typ[types.Uint32]
	case "int32":
		return types.Typ[types.Int32]
	case "float64":
		return types.Typ[types.Float64]
	case "string":
		return types.Typ[types.String]
	}
	return nil
}

func (e *SpecEnv) evalCall(n *ast.CallExpr) Value {
	x := e.x
	fname := ""
	if id, ok := n.Fun.(*ast.Ident); ok {
		fname = id.Name
	}
	argv := func(i int) Value { return e.eval(n.Args[i]) }
	switch fname {
	case "len":
		switch v := argv(0).(type) {
		case SliceV:
			return Scalar{T: v.Len, Ty: tyInt}
		case Scalar:
			if mt, ok := v.Ty.Underlying().(*types.Map); ok {
				return Scalar{T: x.mapLenQuiet(e.st, mt, v.T), Ty: tyInt}
			}
		}
		e.errorf("len of unsupported value")
		return UnknownV{}
	case "cap":
		if v, ok := argv(0).(SliceV); ok && !v.Str {
			return Scalar{T: v.Cap, Ty: tyInt}
		}
		if v, ok := argv(0).(Scalar); ok && v.Ty != nil {
			if _, isChan := v.Ty.Underlying().(*types.Chan); isChan {
				return Scalar{T: x.objGet(e.st, "Chan.cap", bv64, v.T), Ty: tyInt}
			}
		}
		e.errorf("cap of non-slice")
		return UnknownV{}
	case "arr":
		switch v := argv(0).(type) {
		case SliceV:
			return Scalar{T: v.Arr, Ty: nil}
		}
		e.errorf("arr of non-slice")
		return UnknownV{}
	case "typeis":
		// typeis(x, T): the dynamic type of interface x is *T
		if iv, ok := argv(0).(IfaceV); ok {
			if id, ok := n.Args[1].(*ast.Ident); ok {
				if t := x.P.LookupType(id.Name); t != nil {
					return Scalar{T: Eq(iv.Tag, x.typeTag(types.NewPointer(t))), Ty: tyBool}
				}
			}
		}
		e.errorf("typeis: interface value and type name expected")
		return UnknownV{}
	case "errarr":
		// errarr(e): backing array of the text of an error made by errors.New (0 when unknown to the ghost state)
		if v, ok := argv(0).(IfaceV); ok {
			return Scalar{T: x.objGet(e.st, "ErrText.arr", IntS, v.Val), Ty: nil}
		}
		e.errorf("errarr of non-error")
		return UnknownV{}
	case "off":
		if v, ok := argv(0).(SliceV); ok {
			return Scalar{T: v.Off, Ty: tyInt}
		}
		e.errorf("off of non-slice")
		return UnknownV{}
	case "ref":
		// ref(p): the Int reference of a pointer-like value
		switch v := argv(0).(type) {
		case Scalar:
			return Scalar{T: v.T, Ty: nil}
		case IfaceV:
			return Scalar{T: v.Val, Ty: nil}
		}
		return UnknownV{}
	case "old":
		sub := *e
		if e.old != nil {
			sub.st = e.old
		}
		sub.localFirst = false
		return sub.eval(n.Args[0])
	case "rangeidx", "rangen", "rangekey", "rangehad":
		// ghost view of the innermost map iteration: rangeidx() iterations completed, rangen() number of keys at loop
		// entry, rangekey(i) the i-th key of the enumeration, rangehad(k) key k was present at loop entry
		ib, ok := e.st.Vars["range.iter"].(iterBox)
		if !ok {
			e.errorf("%s: no map iteration in scope", fname)
			return UnknownV{}
		}
		switch fname {
		case "rangen":
			return Scalar{T: ib.it.n, Ty: tyInt}
		case "rangeidx":
			if jv, ok := e.st.Vars["range.j:"+ib.name].(Scalar); ok {
				return Scalar{T: jv.T, Ty: tyInt}
			}
			return Scalar{T: BVLit(0, 64), Ty: tyInt}
		case "rangekey":
			i := e.idxTerm(argv(0))
			var kty types.Type
			if !isString(ib.it.mt.Key()) {
				kty = ib.it.mt.Key()
			}
			return Scalar{T: Select(ib.it.keys, i), Ty: kty}
		default:
			k := x.mapKeyTerm(argv(0), ib.it.mt.Key(), e)
			return Scalar{T: x.mapHasQuiet(ib.it.st0, ib.it.mt, ib.it.m, k), Ty: tyBool}
		}
	case "chanClosed":
		// chanClosed(x.f): channel held in field f has been closed (typestate component of that field)
		key := "Chan.closed"
		if se, ok := n.Args[0].(*ast.SelectorExpr); ok {
			if bv, ok := e.eval(se.X).(Scalar); ok && bv.Ty != nil {
				if pt, ok := bv.Ty.Underlying().(*types.Pointer); ok {
					key = "Chan.closed@" + typeName(pt.Elem()) + "." + se.Sel.Name
				}
			}
		}
		if ch, ok := argv(0).(Scalar); ok {
			return Scalar{T: x.objGet(e.st, key, BoolS, ch.T), Ty: tyBool}
		}
		e.errorf("chanClosed: channel expected")
		return UnknownV{}
	case "prev":
		// value of an expression at the previous section cut (or at entry)
		sub := *e
		if e.st != nil && e.st.PrevCut != nil {
			sub.st = e.st.PrevCut
		} else if e.old != nil {
			sub.st = e.old
		}
		return sub.eval(n.Args[0])
	case "implies":
		anteEnv := *e
		anteEnv.neg = !e.neg
		a := anteEnv.EvalBool(n.Args[0])
		consEnv := *e
		consEnv.ante = append(append([]*Term{}, e.ante...), a)
		c := consEnv.EvalBool(n.Args[1])
		return Scalar{T: Implies(a, c), Ty: tyBool}
	case "ite":
		c := e.EvalBool(n.Args[0])
		a, b := e.coerce(argv(1), argv(2))
		if ua, ok := a.(UConst); ok {
			a = e.defaultConst(ua)
			b = e.defaultConst(b.(UConst))
		}
		return x.mergeValuesPure(c, a, b)
	case "forall", "exists":
		return e.quant(n, fname == "forall")
	case "forallkey", "forallint":
		return e.quantKey(n, fname == "forallkey")
	case "sub":
		// sub(s, t): s lies inside t[0:len(t)) (same array) or s is empty/nil
		s, ok1 := argv(0).(SliceV)
		t, ok2 := argv(1).(SliceV)
		if !ok1 || !ok2 {
			e.errorf("sub: slices expected")
			return UnknownV{}
		}
		inside := And(Eq(s.Arr, t.Arr), BVCmp("bvule", t.Off, s.Off), BVCmp("bvule", BVBin("bvadd", s.Off, s.Len), BVBin("bvadd", t.Off, t.Len)))
		return Scalar{T: Or(Eq(s.Len, BVLit(0, 64)), inside), Ty: tyBool}
	case "eqBytes":
		// eqBytes(a, b): same length and same bytes
		a, ok1 := argv(0).(SliceV)
		b, ok2 := argv(1).(SliceV)
		if !ok1 || !ok2 {
			e.errorf("eqBytes: slices expected")
			return UnknownV{}
		}
		k := x.VC.Fresh("k", bv64)
		ia := x.objGet(e.st, elemKey(tyByte), Arr(bv64, BV(8)), a.Arr)
		ib := x.objGet(e.st, elemKey(tyByte), Arr(bv64, BV(8)), b.Arr)
		body := Implies(BVCmp("bvult", k, a.Len), Eq(Select(ia, BVBin("bvadd", a.Off, k)), Select(ib, BVBin("bvadd", b.Off, k))))
		return Scalar{T: And(Eq(a.Len, b.Len), e.quantTerm([]*Term{k}, body, true)), Ty: tyBool}
	case "fresh":
		// fresh(x): x was allocated during this activation (ref >= entry watermark)
		var r *Term
		switch v := argv(0).(type) {
		case Scalar:
			r = v.T
		case SliceV:
			r = v.Arr
		case IfaceV:
			r = v.Val
		case LocV:
			r = v.Obj
		}
		if r != nil && e.freshBase != nil {
			return Scalar{T: IntCmp(">=", r, e.freshBase), Ty: tyBool}
		}
		if r != nil && x.Entry != nil {
			return Scalar{T: IntCmp(">=", r, x.Entry.Next), Ty: tyBool}
		}
		e.errorf("fresh: unsupported")
		return UnknownV{}
	case "isnil":
		switch v := argv(0).(type) {
		case IfaceV:
			return Scalar{T: Eq(v.Tag, IntLit(0)), Ty: tyBool}
		case Scalar:
			return Scalar{T: Eq(v.T, IntLit(0)), Ty: tyBool}
		case SliceV:
			return Scalar{T: Eq(v.Arr, IntLit(0)), Ty: tyBool}
		case ClosureV:
			return Scalar{T: Eq(v.Ref, IntLit(0)), Ty: tyBool}
		case LocV:
			if v.Obj != nil {
				return Scalar{T: Eq(v.Obj, IntLit(0)), Ty: tyBool}
			}
			return Scalar{T: False, Ty: tyBool}
		}
	case "has":
		// has(m, k): key present in map
		if m, ok := argv(0).(Scalar); ok {
			if mt, ok := m.Ty.Underlying().(*types.Map); ok {
				k := x.mapKeyTerm(argv(1), mt.Key(), e)
				return Scalar{T: x.mapHasQuiet(e.st, mt, m.T, k), Ty: tyBool}
			}
		}
		e.errorf("has: map expected")
		return UnknownV{}
	case "sid":
		if s, ok := argv(0).(SliceV); ok && s.Str {
			return Scalar{T: x.sid(s), Ty: nil}
		}
	case "tag":
		if iv, ok := argv(0).(IfaceV); ok {
			return Scalar{T: iv.Tag, Ty: nil}
		}
	}
	// ghost function?
	if v, ok := e.ghostCall(fname, n); ok {
		return v
	}
	// conversion?
	if ty := e.typeByName(fname); ty != nil && len(n.Args) == 1 {
		v := argv(0)
		if u, ok := v.(UConst); ok {
			return e.constAs(u, Scalar{T: zeroTerm(scalarSort(ty)), Ty: ty})
		}
		if s, ok := v.(Scalar); ok {
			ts := scalarSort(ty)
			if s.T.S.Kind == "BV" && ts.Kind == "BV" {
				var r *Term
				switch {
				case ts.W == s.T.S.W:
					r = s.T
				case ts.W < s.T.S.W:
					r = Extract(ts.W-1, 0, s.T)
				case s.Ty != nil && isSigned(s.Ty):
					r = SignExt(ts.W-s.T.S.W, s.T)
				default:
					r = ZeroExt(ts.W-s.T.S.W, s.T)
				}
				return Scalar{T: r, Ty: ty}
			}
			if s.T.S.Kind == "BV" && ts == RealS {
				return Scalar{T: x.bvToReal(s.T, s.Ty != nil && isSigned(s.Ty)), Ty: ty}
			}
		}
		if sl, ok := v.(SliceV); ok && fname == "string" {
			sl.Str = true
			sl.Ty = ty
			return sl
		}
		e.errorf("unsupported conversion %s", exprText(n))
		return UnknownV{}
	}
	// pure spec function (macro expansion)
	if pf, ok := x.P.Spec.Pures[fname]; ok {
		if len(n.Args) != len(pf.Params) {
			e.errorf("%s: expected %d args", fname, len(pf.Params))
			return UnknownV{}
		}
		if x.opaquePure[fname] {
			// uninterpreted in this function's verification: a function of the argument values
			// (for a byte slice: of its backing bytes and offset), nothing else is known about it
			var args []*Term
			okAll := true
			for i := range pf.Params {
				switch v := argv(i).(type) {
				case Scalar:
					args = append(args, v.T)
				case SliceV:
					args = append(args, x.objGet(e.st, elemKey(tyByte), Arr(bv64, BV(8)), v.Arr), v.Off)
				default:
					okAll = false
				}
			}
			if ty := e.typeByName(pf.ResTy); ty != nil && okAll {
				return Scalar{T: x.VC.UF("opq_"+fname, scalarSort(ty), args...), Ty: ty}
			}
			e.errorf("%s: cannot be made opaque (argument or result kind)", fname)
			return UnknownV{}
		}
		if e.depth > 20 {
			e.errorf("%s: macro expansion too deep", fname)
			return UnknownV{}
		}
		sub := e.clone()
		sub.depth = e.depth + 1
		sub.localFirst = false
		for i, p := range pf.Params {
			v := argv(i)
			if u, ok := v.(UConst); ok {
				if ty := e.typeByName(p.Ty); ty != nil {
					v = e.constAs(u, Scalar{T: zeroTerm(scalarSort(ty)), Ty: ty})
				} else {
					v = e.defaultConst(u)
				}
			} else if s, ok := v.(Scalar); ok {
				if ty := e.typeByName(p.Ty); ty != nil && s.T.S.Kind == "BV" && scalarSort(ty).Kind == "BV" && scalarSort(ty).W == s.T.S.W {
					s.Ty = ty
					v = s
				}
			}
			sub.vars[p.Name] = v
		}
		r := sub.eval(pf.Body)
		if u, ok := r.(UConst); ok {
			if ty := e.typeByName(pf.ResTy); ty != nil {
				return e.constAs(u, Scalar{T: zeroTerm(scalarSort(ty)), Ty: ty})
			}
		}
		if s, ok := r.(Scalar); ok {
			if ty := e.typeByName(pf.ResTy); ty != nil {
				s.Ty = ty
				return s
			}
		}
		return r
	}
	e.errorf("unknown function %s in contract", exprText(n.Fun))
	return UnknownV{}
}

// mergeValuesPure builds ite without naming.
func (x *Exec) mergeValuesPure(c *Term, a, b Value) Value {
	switch av := a.(type) {
	case Scalar:
		if bv, ok := b.(Scalar); ok && av.T.S.Eq(bv.T.S) {
			return Scalar{T: Ite(c, av.T, bv.T), Ty: av.Ty}
		}
	case SliceV:
		if bv, ok := b.(SliceV); ok {
			r := SliceV{Arr: Ite(c, av.Arr, bv.Arr), Off: Ite(c, av.Off, bv.Off), Len: Ite(c, av.Len, bv.Len), Ty: av.Ty, Str: av.Str}
			if !av.Str && bv.Cap != nil {
				r.Cap = Ite(c, av.Cap, bv.Cap)
			}
			return r
		}
	case IfaceV:
		if bv, ok := b.(IfaceV); ok {
			return IfaceV{Tag: Ite(c, av.Tag, bv.Tag), Val: Ite(c, av.Val, bv.Val), Ty: av.Ty}
		}
	}
	return UnknownV{}
}

// quant handles forall(i, lo, hi, body) / exists(i, lo, hi, body).
func (e *SpecEnv) quant(n *ast.CallExpr, universal bool) Value {
	x := e.x
	if len(n.Args) != 4 {
		e.errorf("forall/exists(i, lo, hi, body) expected")
		return UnknownV{}
	}
	id, ok := n.Args[0].(*ast.Ident)
	if !ok {
		e.errorf("forall: first argument must be an identifier")
		return UnknownV{}
	}
	lo, hi := e.eval(n.Args[1]), e.eval(n.Args[2])
	lo, hi = e.coerce(lo, hi)
	// constant bounds: expand
	if ul, ok := lo.(UConst); ok {
		uh := hi.(UConst)
		l, _ := constant.Int64Val(ul.V)
		h, _ := constant.Int64Val(uh.V)
		if h-l > 64 {
			e.errorf("forall: constant range too large")
			return UnknownV{}
		}
		var parts []*Term
		for k := l; k < h; k++ {
			sub := e.clone()
			sub.shadow = map[string]bool{id.Name: true}
			for kk := range e.shadow {
				sub.shadow[kk] = true
			}
			sub.vars[id.Name] = UConst{constant.MakeInt64(k)}
			parts = append(parts, sub.EvalBool(n.Args[3]))
		}
		if universal {
			return Scalar{T: And(parts...), Ty: tyBool}
		}
		return Scalar{T: Or(parts...), Ty: tyBool}
	}
	ls, ok1 := lo.(Scalar)
	hs, ok2 := hi.(Scalar)
	if !ok1 || !ok2 {
		e.errorf("forall: bad bounds")
		return UnknownV{}
	}
	v := x.VC.Fresh(id.Name, ls.T.S)
	sub := e.clone()
	prenex := e.assume && !e.neg && universal && !e.noQuant
	isOuter := false
	if prenex {
		if e.outerVars == nil {
			l := []*Term{}
			sub.outerVars = &l
			isOuter = true
		}
	} else {
		sub.outerVars = nil
	}
	sub.shadow = map[string]bool{id.Name: true}
	for k := range e.shadow {
		sub.shadow[k] = true
	}
	ty := ls.Ty
	if ty == nil {
		ty = hs.Ty
	}
	sub.vars[id.Name] = Scalar{T: v, Ty: ty}
	body := sub.EvalBool(n.Args[3])
	var rng *Term
	if ls.T.S.Kind == "BV" {
		signed := ty != nil && isSigned(ty)
		rng = And(BVCmp(pick(signed, "bvsle", "bvule"), ls.T, v), BVCmp(pick(signed, "bvslt", "bvult"), v, hs.T))
	} else {
		rng = And(IntCmp("<=", ls.T, v), IntCmp("<", v, hs.T))
	}
	if prenex && !isOuter {
		// nested inside an assumed universal: hand the variable to the outermost quantifier
		*e.outerVars = append(*e.outerVars, v)
		return Scalar{T: Implies(rng, body), Ty: tyBool}
	}
	if universal {
		vars := []*Term{v}
		if prenex && isOuter {
			vars = append(vars, *sub.outerVars...)
		}
		return Scalar{T: e.quantTerm(vars, Implies(rng, body), true), Ty: tyBool}
	}
	return Scalar{T: e.quantTerm([]*Term{v}, And(rng, body), false), Ty: tyBool}
}

// quantKey handles forallkey(k, m, body): for every key present in map m; forallint(a, body): for every Int value.
func (e *SpecEnv) quantKey(n *ast.CallExpr, overMap bool) Value {
	x := e.x
	want := 2
	if overMap {
		want = 3
	}
	if len(n.Args) != want {
		e.errorf("forallkey(k, m, body) / forallint(a, body) expected")
		return UnknownV{}
	}
	id, ok := n.Args[0].(*ast.Ident)
	if !ok {
		e.errorf("quantifier: first argument must be an identifier")
		return UnknownV{}
	}
	ks := IntS
	var rng *Term = True
	var mt *types.Map
	var mref *Term
	if overMap {
		mv, ok := e.eval(n.Args[1]).(Scalar)
		if ok {
			mt, _ = mv.Ty.Underlying().(*types.Map)
			mref = mv.T
		}
		if mt == nil {
			e.errorf("forallkey: map expected")
			return UnknownV{}
		}
		ks = mapKeySort(mt.Key())
	}
	v := x.VC.Fresh(id.Name, ks)
	sub := e.clone()
	prenex := e.assume && !e.neg && !e.noQuant
	isOuter := false
	if prenex {
		if e.outerVars == nil {
			l := []*Term{}
			sub.outerVars = &l
			isOuter = true
		}
	} else {
		sub.outerVars = nil
	}
	sub.shadow = map[string]bool{id.Name: true}
	for k := range e.shadow {
		sub.shadow[k] = true
	}
	var kty types.Type
	if mt != nil && !isString(mt.Key()) {
		kty = mt.Key()
	}
	sub.vars[id.Name] = Scalar{T: v, Ty: kty}
	if overMap {
		rng = x.mapHasQuiet(e.st, mt, mref, v)
	}
	body := sub.EvalBool(n.Args[want-1])
	if prenex && !isOuter {
		*e.outerVars = append(*e.outerVars, v)
		return Scalar{T: Implies(rng, body), Ty: tyBool}
	}
	vars := []*Term{v}
	if prenex && isOuter {
		vars = append(vars, *sub.outerVars...)
	}
	return Scalar{T: e.quantTerm(vars, Implies(rng, body), true), Ty: tyBool}
}

// quantTerm turns a quantified formula into a ground term appropriate for the mode:
// universal in assert mode (positive): Skolem constants; universal in assume mode (positive): registered fact.
func (e *SpecEnv) quantTerm(vars []*Term, body *Term, universal bool) *Term {
	x := e.x
	positive := !e.neg
	asUniversal := universal == positive // effective quantifier after polarity
	if e.noQuant && e.assume && asUniversal {
		e.errorf("quantifier in a position where it cannot be assumed soundly (left of ||, under ==)")
		return e.x.VC.Fresh("specerr", BoolS)
	}
	if e.assume {
		if asUniversal {
			// register fact guarded by the antecedents in scope; the formula itself contributes True
			g := And(append([]*Term{e.guard}, e.ante...)...)
			if !positive {
				// not(exists v. body) assumed  ==  forall v. not body ; caller wraps in Not, so register Not(body)
				x.VC.AssumeForall(vars, g, Not(body), "spec-forall")
				return False
			}
			x.VC.AssumeForall(vars, g, body, "spec-forall")
			return True
		}
		// existential assumed: Skolem constants (fresh, already)
		return body
	}
	// assert mode
	if asUniversal {
		x.VC.Skolems = append(x.VC.Skolems, vars...)
		return body // vars are fresh constants: proving body for arbitrary vars
	}
	e.errorf("existential quantifier in asserted position needs a witness (unsupported)")
	return body
}
