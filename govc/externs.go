package govc

import (
	"go/token"
	"go/types"

	"golang.org/x/tools/go/ssa"
)

type externFn func(x *Exec, fc *funcCtx, n *node, callee *ssa.Function, args []Value, rty types.Type, pos token.Pos) Value

// externTable holds engine-level models of library functions (assumed contracts; listed in the evidence).
var externTable = map[string]externFn{}

// ExternDoc documents every engine-level extern model (reported as trusted base).
var ExternDoc = map[string]string{}

func regExtern(name, doc string, f externFn) {
	externTable[name] = f
	ExternDoc[name] = doc
}

func init() {
	regExtern("fmt.Errorf", "returns a fresh non-nil error; no effect on tracked state", func(x *Exec, fc *funcCtx, n *node, callee *ssa.Function, args []Value, rty types.Type, pos token.Pos) Value {
		return x.freshError(n)
	})
	regExtern("errors.New", "returns a fresh non-nil error whose text is the argument (ghost errtext); no effect on tracked state", func(x *Exec, fc *funcCtx, n *node, callee *ssa.Function, args []Value, rty types.Type, pos token.Pos) Value {
		e := x.freshError(n).(IfaceV)
		if s, ok := args[0].(SliceV); ok {
			x.setErrText(n, e, s)
		}
		return e
	})
}

// freshError returns a fresh non-nil error value (dynamic type *errors.errorString, tag 999).
func (x *Exec) freshError(n *node) Value {
	r := x.alloc(n.st, "err")
	return IfaceV{Tag: IntLit(999), Val: r, Ty: types.Universe.Lookup("error").Type()}
}

// setErrText records the text of an error object in ghost state: ErrText.{arr,off,len}[ref].
func (x *Exec) setErrText(n *node, e IfaceV, s SliceV) {
	st := n.st
	for _, c := range []struct {
		k string
		t *Term
	}{{"ErrText.arr", s.Arr}, {"ErrText.off", s.Off}, {"ErrText.len", s.Len}} {
		x.objSet(st, c.k, e.Val, c.t)
	}
}

func init() {
	lock := func(what string) externFn {
		return func(x *Exec, fc *funcCtx, n *node, callee *ssa.Function, args []Value, rty types.Type, pos token.Pos) Value {
			x.lockOp(n, args[0], pos, what)
			return TupleV{}
		}
	}
	regExtern("(*sync.Mutex).Lock", "acquires the mutex: guarded components are havocked and the declared lock invariant is assumed", lock("Lock"))
	regExtern("(*sync.Mutex).Unlock", "releases the mutex: the declared lock invariant must hold (obligation)", lock("Unlock"))
	regExtern("(*sync.RWMutex).Lock", "as Mutex.Lock", lock("Lock"))
	regExtern("(*sync.RWMutex).Unlock", "as Mutex.Unlock", lock("Unlock"))
	regExtern("(*sync.RWMutex).RLock", "treated as Lock (sound over-approximation)", lock("Lock"))
	regExtern("(*sync.RWMutex).RUnlock", "treated as Unlock", lock("Unlock"))
	regExtern("(*sync.Once).Do", "runs the function iff this Once has not fired (ghost Once.done of the owning object), then marks it fired", func(x *Exec, fc *funcCtx, n *node, callee *ssa.Function, args []Value, rty types.Type, pos token.Pos) Value {
		_, _, obj, ok := x.mutexOf(args[0])
		cv, isC := args[1].(ClosureV)
		if !ok || !isC {
			x.VC.Warnf("once.Do with unsupported receiver/function in %s", x.TopName)
			return TupleV{}
		}
		done := x.VC.Def("once.done", x.objGet(n.st, "Once.done", BoolS, obj))
		before := n.st.Clone()
		saveGuard := n.guard
		n.guard = x.VC.Def("g.once", And(saveGuard, Not(done)))
		n.st.G = n.guard
		x.callStatic(fc, n, cv.Fn, nil, cv.Bindings, types.NewTuple(), pos)
		x.objSet(n.st, "Once.done", obj, True)
		n.guard = saveGuard
		n.st.G = saveGuard
		merged := x.mergeStates(Not(done), n.st, before)
		*n.st = *merged
		return TupleV{}
	})
	regExtern("time.Now", "returns an arbitrary time (nanoseconds as 64-bit value)", func(x *Exec, fc *funcCtx, n *node, callee *ssa.Function, args []Value, rty types.Type, pos token.Pos) Value {
		return x.freshValue(rty, "now", n.guard, n.st)
	})
	regExtern("(time.Time).Add", "t + d on the nanosecond value (wrap-around ignored: times are far from the 64-bit limits)", func(x *Exec, fc *funcCtx, n *node, callee *ssa.Function, args []Value, rty types.Type, pos token.Pos) Value {
		a, ok1 := args[0].(Scalar)
		b, ok2 := args[1].(Scalar)
		if ok1 && ok2 {
			return Scalar{T: x.VC.Def("time.add", BVBin("bvadd", a.T, b.T)), Ty: rty}
		}
		return x.freshValue(rty, "time", n.guard, n.st)
	})
	regExtern("(time.Time).Before", "signed comparison of the nanosecond values", func(x *Exec, fc *funcCtx, n *node, callee *ssa.Function, args []Value, rty types.Type, pos token.Pos) Value {
		a, ok1 := args[0].(Scalar)
		b, ok2 := args[1].(Scalar)
		if ok1 && ok2 {
			return Scalar{T: x.VC.Def("time.before", BVCmp("bvslt", a.T, b.T)), Ty: tyBool}
		}
		return x.freshValue(rty, "before", n.guard, n.st)
	})
	regExtern("(time.Time).Sub", "difference of the nanosecond values", func(x *Exec, fc *funcCtx, n *node, callee *ssa.Function, args []Value, rty types.Type, pos token.Pos) Value {
		a, ok1 := args[0].(Scalar)
		b, ok2 := args[1].(Scalar)
		if ok1 && ok2 {
			return Scalar{T: x.VC.Def("time.sub", BVBin("bvsub", a.T, b.T)), Ty: rty}
		}
		return x.freshValue(rty, "sub", n.guard, n.st)
	})
}
