package govc

import (
	"go/token"
	"go/types"

	"golang.org/x/tools/go/ssa"
)

type externFn func(x *Exec, fc *funcCtx, n *node, callee *ssa.Function, args []Value, rty types.Type, pos token.Pos) Value

// externTable holds engine-level models of library functions (assumed contracts; listed in the evidence).
var externTable = map[string]externFn{}

// ExternDoc documents every engine-level extern model (reported as trusted base).
var ExternDoc = map[string]string{}

func regExtern(name, doc string, f externFn) {
	externTable[name] = f
	ExternDoc[name] = doc
}

func init() {
	regExtern("fmt.Errorf", "returns a fresh non-nil error; no effect on tracked state", func(x *Exec, fc *funcCtx, n *node, callee *ssa.Function, args []Value, rty types.Type, pos token.Pos) Value {
		return x.freshError(n)
	})
	regExtern("errors.New", "returns a fresh non-nil error whose text is the argument (ghost errtext); no effect on tracked state", func(x *Exec, fc *funcCtx, n *node, callee *ssa.Function, args []Value, rty types.Type, pos token.Pos) Value {
		e := x.freshError(n).(IfaceV)
		if s, ok := args[0].(SliceV); ok {
			x.setErrText(n, e, s)
		}
		return e
	})
}

// freshError returns a fresh non-nil error value (dynamic type *errors.errorString, tag 999).
func (x *Exec) freshError(n *node) Value {
	r := x.alloc(n.st, "err")
	return IfaceV{Tag: IntLit(999), Val: r, Ty: types.Universe.Lookup("error").Type()}
}

// setErrText records the text of an error object in ghost state: ErrText.{arr,off,len}[ref].
func (x *Exec) setErrText(n *node, e IfaceV, s SliceV) {
	st := n.st
	for _, c := range []struct {
		k string
		t *Term
	}{{"ErrText.arr", s.Arr}, {"ErrText.off", s.Off}, {"ErrText.len", s.Len}} {
		x.objSet(st, c.k, e.Val, c.t)
	}
}
