package govc

import (
	"fmt"
	"go/token"
	"go/types"
	"strings"

	"golang.org/x/tools/go/ssa"
)

type externFn func(x *Exec, fc *funcCtx, n *node, callee *ssa.Function, args []Value, rty types.Type, pos token.Pos) Value

// externTable holds engine-level models of library functions (assumed contracts; listed in the evidence).
var externTable = map[string]externFn{}

// ExternDoc documents every engine-level extern model (reported as trusted base).
var ExternDoc = map[string]string{}

func regExtern(name, doc string, f externFn) {
	externTable[name] = f
	ExternDoc[name] = doc
}

func init() {
	regExtern("fmt.Errorf", "returns a fresh non-nil error; no effect on tracked state", func(x *Exec, fc *funcCtx, n *node, callee *ssa.Function, args []Value, rty types.Type, pos token.Pos) Value {
		return x.freshError(n)
	})
	regExtern("errors.New", "returns a fresh non-nil error whose text is the argument (ghost errtext); no effect on tracked state", func(x *Exec, fc *funcCtx, n *node, callee *ssa.Function, args []Value, rty types.Type, pos token.Pos) Value {
		e := x.freshError(n).(IfaceV)
		if s, ok := args[0].(SliceV); ok {
			x.setErrText(n, e, s)
		}
		return e
	})
}

// freshError returns a fresh non-nil error value (dynamic type *errors.errorString, tag 999).
func (x *Exec) freshError(n *node) Value {
	r := x.alloc(n.st, "err")
	return IfaceV{Tag: IntLit(999), Val: r, Ty: types.Universe.Lookup("error").Type()}
}

// setErrText records the text of an error object in ghost state: ErrText.{arr,off,len}[ref].
func (x *Exec) setErrText(n *node, e IfaceV, s SliceV) {
	st := n.st
	for _, c := range []struct {
		k string
		t *Term
	}{{"ErrText.arr", s.Arr}, {"ErrText.off", s.Off}, {"ErrText.len", s.Len}} {
		x.objSet(st, c.k, e.Val, c.t)
	}
}

func init() {
	lock := func(what string) externFn {
		return func(x *Exec, fc *funcCtx, n *node, callee *ssa.Function, args []Value, rty types.Type, pos token.Pos) Value {
			x.lockOp(n, args[0], pos, what)
			return TupleV{}
		}
	}
	regExtern("(*sync.Mutex).Lock", "acquires the mutex: guarded components are havocked and the declared lock invariant is assumed", lock("Lock"))
	regExtern("(*sync.Mutex).Unlock", "releases the mutex: the declared lock invariant must hold (obligation)", lock("Unlock"))
	regExtern("(*sync.RWMutex).Lock", "as Mutex.Lock", lock("Lock"))
	regExtern("(*sync.RWMutex).Unlock", "as Mutex.Unlock", lock("Unlock"))
	regExtern("(*sync.RWMutex).RLock", "treated as Lock (sound over-approximation)", lock("Lock"))
	regExtern("(*sync.RWMutex).RUnlock", "treated as Unlock", lock("Unlock"))
	regExtern("(*sync.Cond).Wait", "Unlock then Lock of the declared lock of the object owning the condition variable (invariant checked, guarded state havocked, invariant assumed)", func(x *Exec, fc *funcCtx, n *node, callee *ssa.Function, args []Value, rty types.Type, pos token.Pos) Value {
		if !x.condWait(n, args[0], pos) {
			x.VC.Warnf("sync.Cond.Wait on a condition variable the engine cannot relate to a declared lock in %s: no effect modelled", x.TopName)
		}
		return TupleV{}
	})
	regExtern("(*sync.Once).Do", "runs the function iff this Once has not fired (ghost Once.done of the owning object), then marks it fired", func(x *Exec, fc *funcCtx, n *node, callee *ssa.Function, args []Value, rty types.Type, pos token.Pos) Value {
		_, _, obj, ok := x.mutexOf(args[0])
		cv, isC := args[1].(ClosureV)
		if !ok || !isC {
			x.VC.Warnf("once.Do with unsupported receiver/function in %s", x.TopName)
			return TupleV{}
		}
		done := x.VC.Def("once.done", x.objGet(n.st, "Once.done", BoolS, obj))
		before := n.st.Clone()
		saveGuard := n.guard
		n.guard = x.VC.Def("g.once", And(saveGuard, Not(done)))
		n.st.G = n.guard
		x.callStatic(fc, n, cv.Fn, nil, cv.Bindings, types.NewTuple(), pos)
		x.objSet(n.st, "Once.done", obj, True)
		n.guard = saveGuard
		n.st.G = saveGuard
		merged := x.mergeStates(Not(done), n.st, before)
		*n.st = *merged
		return TupleV{}
	})
	regExtern("time.Now", "returns an arbitrary time (nanoseconds as 64-bit value)", func(x *Exec, fc *funcCtx, n *node, callee *ssa.Function, args []Value, rty types.Type, pos token.Pos) Value {
		return x.freshValue(rty, "now", n.guard, n.st)
	})
	regExtern("(time.Time).Add", "t + d on the nanosecond value (wrap-around ignored: times are far from the 64-bit limits)", func(x *Exec, fc *funcCtx, n *node, callee *ssa.Function, args []Value, rty types.Type, pos token.Pos) Value {
		a, ok1 := args[0].(Scalar)
		b, ok2 := args[1].(Scalar)
		if ok1 && ok2 {
			return Scalar{T: x.VC.Def("time.add", BVBin("bvadd", a.T, b.T)), Ty: rty}
		}
		return x.freshValue(rty, "time", n.guard, n.st)
	})
	regExtern("(time.Time).Before", "signed comparison of the nanosecond values", func(x *Exec, fc *funcCtx, n *node, callee *ssa.Function, args []Value, rty types.Type, pos token.Pos) Value {
		a, ok1 := args[0].(Scalar)
		b, ok2 := args[1].(Scalar)
		if ok1 && ok2 {
			return Scalar{T: x.VC.Def("time.before", BVCmp("bvslt", a.T, b.T)), Ty: tyBool}
		}
		return x.freshValue(rty, "before", n.guard, n.st)
	})
	regExtern("(time.Time).Sub", "difference of the nanosecond values", func(x *Exec, fc *funcCtx, n *node, callee *ssa.Function, args []Value, rty types.Type, pos token.Pos) Value {
		a, ok1 := args[0].(Scalar)
		b, ok2 := args[1].(Scalar)
		if ok1 && ok2 {
			return Scalar{T: x.VC.Def("time.sub", BVBin("bvsub", a.T, b.T)), Ty: rty}
		}
		return x.freshValue(rty, "sub", n.guard, n.st)
	})
}

func init() {
	// sync/atomic: an atomic access to a field guarded by a lock that is held behaves like a plain access; otherwise
	// other threads may change the value at any time (a load returns an arbitrary value, writes need no lock).
	aload := func(x *Exec, fc *funcCtx, n *node, callee *ssa.Function, args []Value, rty types.Type, pos token.Pos) Value {
		lv, ok := args[0].(LocV)
		if ok && lv.Kind == "field" {
			key := lv.Outer + "." + fieldPathName(lv.ST, lv.Path)
			if li := x.guardedBy(key); li != nil && (n.st.Locks[lockName(li)] || x.holdsByContract(lockName(li))) {
				return x.load(n, lv, rty, pos)
			}
			if li := x.guardedBy(key); li == nil && n.st.FreshObjs[lv.Obj] > 0 {
				return x.load(n, lv, rty, pos)
			}
			if x.P.Spec.Fields[key] == "quiescent" {
				x.VC.Assumptions["field "+key+" is not written by another thread during one activation that reads it atomically (quiescent)"] = true
				return x.load(n, lv, rty, pos)
			}
		}
		x.VC.Assumptions["an atomic load of a location other threads may write returns an arbitrary value"] = true
		return x.freshValue(rty, "atomic", n.guard, n.st)
	}
	astore := func(x *Exec, fc *funcCtx, n *node, callee *ssa.Function, args []Value, rty types.Type, pos token.Pos) Value {
		if lv, ok := args[0].(LocV); ok {
			elem := lv.Ty.Underlying().(*types.Pointer).Elem()
			x.storeCheck(n, lv, pos)
			x.store(n, lv, args[1], elem, pos)
		}
		return TupleV{}
	}
	for _, nm := range []string{"LoadUint32", "LoadInt32", "LoadInt64", "LoadUint64"} {
		regExtern("sync/atomic."+nm, "atomic load (see engine note on atomics)", aload)
	}
	for _, nm := range []string{"StoreUint32", "StoreInt32", "StoreInt64", "StoreUint64"} {
		regExtern("sync/atomic."+nm, "atomic store: plain store (lockset obligation if the field is declared guarded)", astore)
	}
	cas := func(x *Exec, fc *funcCtx, n *node, callee *ssa.Function, args []Value, rty types.Type, pos token.Pos) Value {
		lv, ok := args[0].(LocV)
		if !ok {
			return x.freshValue(rty, "cas", n.guard, n.st)
		}
		elem := lv.Ty.Underlying().(*types.Pointer).Elem()
		cur := aload(x, fc, n, callee, args[:1], elem, pos)
		cs, ok1 := cur.(Scalar)
		os_, ok2 := args[1].(Scalar)
		ns, ok3 := args[2].(Scalar)
		if !ok1 || !ok2 || !ok3 {
			return x.freshValue(rty, "cas", n.guard, n.st)
		}
		okT := x.VC.Def("cas.ok", Eq(cs.T, os_.T))
		x.store(n, lv, Scalar{T: x.VC.Def("cas.new", Ite(okT, ns.T, cs.T)), Ty: elem}, elem, pos)
		return Scalar{T: okT, Ty: tyBool}
	}
	regExtern("sync/atomic.CompareAndSwapUint32", "atomic compare-and-swap on the current (or arbitrary, if unguarded) value", cas)
	regExtern("sync/atomic.CompareAndSwapInt32", "atomic compare-and-swap", cas)
	add := func(x *Exec, fc *funcCtx, n *node, callee *ssa.Function, args []Value, rty types.Type, pos token.Pos) Value {
		lv, ok := args[0].(LocV)
		if !ok {
			return x.freshValue(rty, "add", n.guard, n.st)
		}
		elem := lv.Ty.Underlying().(*types.Pointer).Elem()
		cur := aload(x, fc, n, callee, args[:1], elem, pos)
		cs, ok1 := cur.(Scalar)
		d, ok2 := args[1].(Scalar)
		if !ok1 || !ok2 {
			return x.freshValue(rty, "add", n.guard, n.st)
		}
		nv := Scalar{T: x.VC.Def("atomic.add", BVBin("bvadd", cs.T, d.T)), Ty: elem}
		x.store(n, lv, nv, elem, pos)
		return nv
	}
	regExtern("sync/atomic.AddInt32", "atomic add", add)
	regExtern("sync/atomic.AddInt64", "atomic add", add)
	regExtern("math/rand.Intn", "returns r with 0 <= r < n (requires n > 0)", func(x *Exec, fc *funcCtx, n *node, callee *ssa.Function, args []Value, rty types.Type, pos token.Pos) Value {
		r := x.freshValue(rty, "rand", n.guard, n.st).(Scalar)
		if a, ok := args[0].(Scalar); ok {
			x.Oblige("pre", "n > 0 @math/rand.Intn", fmt.Sprint(pos), pos, n.guard, BVCmp("bvsgt", a.T, BVLit(0, 64)), nil)
			x.VC.Assume(n.guard, And(BVCmp("bvsle", BVLit(0, 64), r.T), BVCmp("bvslt", r.T, a.T)), "rand.Intn")
		}
		return r
	})
}

func init() {
	// sync.Pool: `field Type.f: pool <GoType>` declares what a pool holds; Get returns a non-nil value of that type
	// (arbitrary contents), Put has no effect on tracked state.
	regExtern("(*sync.Pool).Get", "returns a non-nil value of the element type declared for the pool field (arbitrary contents; distinct from objects the activation already owns is NOT assumed)", func(x *Exec, fc *funcCtx, n *node, callee *ssa.Function, args []Value, rty types.Type, pos token.Pos) Value {
		key := ""
		if call, ok := x.curInstr.(*ssa.Call); ok && len(call.Call.Args) > 0 {
			key = x.dynKeyAny(call.Call.Args[0])
		}
		cls := x.P.Spec.Fields[key]
		if strings.HasPrefix(cls, "pool ") {
			tn, inv := poolDecl(cls)
			if ty := x.poolType(tn); ty != nil {
				v := x.freshValue(ty, "pool.get", n.guard, n.st)
				if sc, ok := v.(Scalar); ok && sc.T.S == IntS {
					x.VC.Assume(n.guard, Not(Eq(sc.T, IntLit(0))), "pool-get-nonnil")
				}
				if inv != "" {
					// pool invariant: holds for everything in the pool (obligation at Put, and of New by the declaration)
					if g, ok := x.poolInv(n, inv, v); ok {
						x.VC.Assume(n.guard, g, "pool-inv")
						x.VC.Assumptions["values made by the New function of pool "+key+" satisfy "+inv+" (not checked)"] = true
					}
				}
				return x.makeInterface(n, v, ty, rty)
			}
		}
		x.VC.Warnf("sync.Pool.Get on a pool without a declared element type (%s): arbitrary interface value", key)
		return x.freshValue(rty, "pool.get", n.guard, n.st)
	})
	regExtern("(*sync.Pool).Put", "no effect on tracked state; a declared pool invariant is an obligation on the value put", func(x *Exec, fc *funcCtx, n *node, callee *ssa.Function, args []Value, rty types.Type, pos token.Pos) Value {
		key := ""
		if call, ok := x.curInstr.(*ssa.Call); ok && len(call.Call.Args) > 0 {
			key = x.dynKeyAny(call.Call.Args[0])
		}
		if cls := x.P.Spec.Fields[key]; strings.HasPrefix(cls, "pool ") && len(args) > 1 {
			tn, inv := poolDecl(cls)
			if ty := x.poolType(tn); ty != nil && inv != "" {
				if iv, ok := args[1].(IfaceV); ok {
					var v Value
					if iv.Box != nil {
						v = iv.Box
					} else if scalarSort(ty) == IntS {
						v = Scalar{T: iv.Val, Ty: ty}
					}
					if v != nil {
						if g, ok := x.poolInv(n, inv, v); ok {
							x.Oblige("pool", "value put into "+key+" satisfies "+inv, fmt.Sprint(pos), pos, n.guard, g, nil)
						}
					}
				}
			}
		}
		return TupleV{}
	})
	nop := func(x *Exec, fc *funcCtx, n *node, callee *ssa.Function, args []Value, rty types.Type, pos token.Pos) Value {
		return x.wrapResults(x.freshResults(rty, callee.Name(), n), rty)
	}
	regExtern("runtime.Gosched", "no effect", nop)
	regExtern("(*time.Timer).Stop", "no effect on tracked state", nop)
	regExtern("(*time.Ticker).Stop", "no effect on tracked state", nop)
	regExtern("time.NewTimer", "returns a non-nil timer whose channel C is non-nil", func(x *Exec, fc *funcCtx, n *node, callee *ssa.Function, args []Value, rty types.Type, pos token.Pos) Value {
		r := x.alloc(n.st, "timer")
		return Scalar{T: r, Ty: rty}
	})
	regExtern("time.NewTicker", "returns a non-nil ticker", func(x *Exec, fc *funcCtx, n *node, callee *ssa.Function, args []Value, rty types.Type, pos token.Pos) Value {
		r := x.alloc(n.st, "ticker")
		return Scalar{T: r, Ty: rty}
	})
}

// dynKeyAny names the field a value was loaded from ("Type.field"), looking through one load.
func (x *Exec) dynKeyAny(v ssa.Value) string {
	if k := x.dynKey(v); k != "" {
		return k
	}
	if fa, ok := v.(*ssa.FieldAddr); ok {
		pt := fa.X.Type().Underlying().(*types.Pointer)
		st := pt.Elem().Underlying().(*types.Struct)
		return typeName(pt.Elem()) + "." + st.Field(fa.Field).Name()
	}
	if g, ok := v.(*ssa.Global); ok {
		return g.Name()
	}
	if u, ok := v.(*ssa.UnOp); ok {
		if g, ok := u.X.(*ssa.Global); ok {
			return g.Name()
		}
	}
	return ""
}

// poolDecl splits "pool <type> [inv <pure>]".
func poolDecl(cls string) (string, string) {
	tn := strings.TrimSpace(strings.TrimPrefix(cls, "pool "))
	if k := strings.Index(tn, " inv "); k >= 0 {
		return strings.TrimSpace(tn[:k]), strings.TrimSpace(tn[k+5:])
	}
	return tn, ""
}

// poolInv evaluates the pure predicate `inv` on a pool element.
func (x *Exec) poolInv(n *node, inv string, v Value) (*Term, bool) {
	pf, ok := x.P.Spec.Pures[inv]
	if !ok || len(pf.Params) != 1 {
		x.VC.Warnf("pool invariant %s is not a one-argument pure function", inv)
		return nil, false
	}
	env := x.localSpecEnv(n.st, n.guard, false)
	env.vars = map[string]Value{pf.Params[0].Name: v}
	g := env.EvalBool(pf.Body)
	if len(*env.errs) > 0 {
		for _, er := range *env.errs {
			x.VC.Warnf("pool invariant %s: %s", inv, er)
		}
		*env.errs = nil
		return nil, false
	}
	return g, true
}

// poolType resolves the element type text of a pool declaration: "*T", "chan *T", "[]byte".
func (x *Exec) poolType(tn string) types.Type {
	switch {
	case strings.HasPrefix(tn, "chan "):
		if el := x.poolType(strings.TrimSpace(tn[5:])); el != nil {
			return types.NewChan(types.SendRecv, el)
		}
	case strings.HasPrefix(tn, "*"):
		if el := x.poolType(tn[1:]); el != nil {
			return types.NewPointer(el)
		}
	case tn == "[]byte":
		return types.NewSlice(types.Typ[types.Uint8])
	default:
		return x.P.LookupType(tn)
	}
	return nil
}

func init() {
	regExtern("github.com/hslam/scheduler.Schedule", "global scheduler: like `go f()` (spawn rule for the closure)", func(x *Exec, fc *funcCtx, n *node, callee *ssa.Function, args []Value, rty types.Type, pos token.Pos) Value {
		if len(args) == 1 {
			x.spawnClosure(n, args[0], pos, "")
		}
		return TupleV{}
	})
	regExtern("github.com/hslam/scheduler.New", "returns a non-nil scheduler", func(x *Exec, fc *funcCtx, n *node, callee *ssa.Function, args []Value, rty types.Type, pos token.Pos) Value {
		r := x.alloc(n.st, "sched")
		return IfaceV{Tag: IntLit(998), Val: r, Ty: rty}
	})
}
