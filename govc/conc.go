package govc

import (
	"fmt"
	"go/ast"
	"go/token"
	"go/types"

	"golang.org/x/tools/go/ssa"
)

// ---------- channels (ghost cap/len only) ----------

func (x *Exec) initChan(n *node, r *Term, size Value) {
	st := n.st
	sz := x.toIndex(size, tyInt)
	x.objSet(st, "Chan.cap", r, sz)
	x.objSet(st, "Chan.len", r, BVLit(0, 64))
	x.objSet(st, "Chan.closed", r, False)
}

func (x *Exec) chanLen(n *node, ch *Term) *Term {
	// other goroutines may send/receive at any time: the length is arbitrary within [0, cap]
	l := x.VC.Fresh("chanlen", bv64)
	c := x.chanCap(n, ch)
	x.VC.Assume(n.guard, And(BVCmp("bvsle", BVLit(0, 64), l), BVCmp("bvsle", l, c)), "chan-len-range")
	return l
}

func (x *Exec) chanCap(n *node, ch *Term) *Term {
	c := x.VC.Def("chancap", x.objGet(n.st, "Chan.cap", bv64, ch))
	x.VC.Assume(n.guard, And(BVCmp("bvsle", BVLit(0, 64), c), BVCmp("bvsle", c, lim47)), "chan-cap-range")
	return c
}

func (x *Exec) chanClose(n *node, ch *Term, pos token.Pos) {
	st := n.st
	x.nilCheck(n, ch, pos, "close")
	txt := x.srcExpr(pos, "call")
	key := "Chan.closed"
	if x.lastChanField != "" {
		key = "Chan.closed@" + x.lastChanField
	}
	if li := x.guardedBy(key); li != nil && !n.st.Locks[lockName(li)] && !x.holdsByContract(lockName(li)) {
		x.Oblige("lockset", key+" changed without "+lockName(li), fmt.Sprint(pos), pos, n.guard, False, li.Props)
	}
	// closing twice panics: the channel must be known open
	x.Oblige("close", txt, "", pos, n.guard, Not(x.objGet(st, key, BoolS, ch)), nil)
	x.objSet(st, key, ch, True)
}

func (x *Exec) chanRecv(n *node, ch Value, i *ssa.UnOp) Value {
	st := n.st
	// blocking receive: assumed to deliver eventually (liveness is not checked)
	x.VC.Assumptions["a blocking channel receive eventually returns (liveness is not checked)"] = true
	var v Value
	if i.CommaOk {
		tup := i.Type().(*types.Tuple)
		v = TupleV{x.freshValue(tup.At(0).Type(), i.Name(), n.guard, st), Scalar{T: x.VC.Fresh("recvok", BoolS), Ty: tyBool}}
		x.ghostRecv(n, ch, v.(TupleV)[0], i)
		return v
	}
	v = x.freshValue(i.Type(), i.Name(), n.guard, st)
	x.ghostRecv(n, ch, v, i)
	return v
}

func (x *Exec) chanSend(n *node, ch, v Value, i *ssa.Send) {
	x.ghostSend(n, ch, v, i.Pos())
}

// selectOp models select: a nondeterministic choice among the cases (and default when non-blocking).
func (x *Exec) selectOp(n *node, i *ssa.Select) Value {
	st := n.st
	tup := i.Type().(*types.Tuple)
	idx := x.VC.Fresh("select.idx", bv64)
	lo := int64(0)
	if !i.Blocking {
		lo = -1
	}
	var choices []*Term
	for k := lo; k < int64(len(i.States)); k++ {
		choices = append(choices, Eq(idx, BVLit(uint64(k), 64)))
	}
	x.VC.Assume(n.guard, Or(choices...), "select-choice")
	if i.Blocking {
		x.VC.Assumptions["a blocking select eventually takes one of its cases (liveness is not checked)"] = true
	}
	vals := TupleV{Scalar{T: idx, Ty: tyInt}, Scalar{T: x.VC.Fresh("recvok", BoolS), Ty: tyBool}}
	ri := 2
	for k, s := range i.States {
		op := func(v ssa.Value) Value { return x.operandIn(n.env, v, st) }
		chosen := Eq(idx, BVLit(uint64(k), 64))
		if s.Dir == types.RecvOnly {
			var rv Value
			if ri < tup.Len() {
				rv = x.freshValue(tup.At(ri).Type(), "select.recv", n.guard, st)
				vals = append(vals, rv)
				ri++
			}
			x.ghostSelectRecv(n, op(s.Chan), rv, chosen, s)
		} else {
			x.ghostSelectSend(n, op(s.Chan), op(s.Send), chosen, s)
		}
	}
	return vals
}

// ---------- spawn ----------

func (x *Exec) spawn(fc *funcCtx, n *node, ins ssa.Instruction, c *ssa.CallCommon) {
	x.ghostSpawn(fc, n, ins, c)
}

// ---------- hooks filled in by the ghost layer (ghost.go) ----------

func (x *Exec) havocGhostForLoop(n *node, fc *funcCtx, l *loopInfo) {}

var _ = ast.Inspect
