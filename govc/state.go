package govc

import (
	"fmt"
	"go/types"
	"sort"
	"strings"

	"golang.org/x/tools/go/ssa"
)

// Comp is one SMT component of a Go value shape.
type Comp struct {
	Suffix string
	S      *Sort
}

var bv64 = BV(64)

// slice/string offsets, lengths and capacities are stored as 48-bit components and zero-extended to 64 bits:
// the type invariant 0 <= off,len,cap < 2^48 is built into the representation (allocation of >= 2^47 elements
// is assumed to fail), which keeps index arithmetic free of wrap-around for the solvers.
var bv48 = BV(48)

func z48(t *Term) *Term { return ZeroExt(16, t) }
func x48(t *Term) *Term { return Extract(47, 0, t) }

// shapeComps flattens a Go type into scalar SMT components.
func shapeComps(t types.Type) []Comp {
	if ok, s := isOpaque(t); ok {
		if s == nil {
			return nil
		}
		return []Comp{{"", s}}
	}
	switch u := t.Underlying().(type) {
	case *types.Basic:
		if u.Info()&types.IsString != 0 {
			return []Comp{{".arr", IntS}, {".off", bv48}, {".len", bv48}}
		}
		if s := sortOfBasic(u); s != nil {
			return []Comp{{"", s}}
		}
		return nil
	case *types.Pointer, *types.Map, *types.Chan, *types.Signature:
		return []Comp{{"", IntS}}
	case *types.Slice:
		return []Comp{{".arr", IntS}, {".off", bv48}, {".len", bv48}, {".cap", bv48}}
	case *types.Interface:
		return []Comp{{".tag", IntS}, {".val", IntS}}
	case *types.Struct:
		var out []Comp
		for i := 0; i < u.NumFields(); i++ {
			f := u.Field(i)
			for _, c := range shapeComps(f.Type()) {
				out = append(out, Comp{"." + f.Name() + c.Suffix, c.S})
			}
		}
		return out
	case *types.Array:
		return nil
	}
	return nil
}

// fromComps builds a Value of type t from a component supplier.
func fromComps(t types.Type, get func(suffix string, s *Sort) *Term) Value {
	return fromCompsP(t, "", get)
}

func fromCompsP(t types.Type, prefix string, get func(suffix string, s *Sort) *Term) Value {
	if ok, s := isOpaque(t); ok {
		if s == nil {
			return StructV{Ty: t}
		}
		return Scalar{T: get(prefix, s), Ty: t}
	}
	switch u := t.Underlying().(type) {
	case *types.Basic:
		if u.Info()&types.IsString != 0 {
			return SliceV{Arr: get(prefix+".arr", IntS), Off: z48(get(prefix+".off", bv48)), Len: z48(get(prefix+".len", bv48)), Ty: t, Str: true}
		}
		if s := sortOfBasic(u); s != nil {
			return Scalar{T: get(prefix, s), Ty: t}
		}
		return UnknownV{Ty: t}
	case *types.Pointer, *types.Map, *types.Chan, *types.Signature:
		return Scalar{T: get(prefix, IntS), Ty: t}
	case *types.Slice:
		return SliceV{Arr: get(prefix+".arr", IntS), Off: z48(get(prefix+".off", bv48)), Len: z48(get(prefix+".len", bv48)), Cap: z48(get(prefix+".cap", bv48)), Ty: t}
	case *types.Interface:
		return IfaceV{Tag: get(prefix+".tag", IntS), Val: get(prefix+".val", IntS), Ty: t}
	case *types.Struct:
		sv := StructV{Ty: t}
		for i := 0; i < u.NumFields(); i++ {
			f := u.Field(i)
			sv.F = append(sv.F, fromCompsP(f.Type(), prefix+"."+f.Name(), get))
		}
		return sv
	}
	return UnknownV{Ty: t}
}

// toComps decomposes a value into (suffix, term) pairs following shapeComps(t).
func toComps(t types.Type, v Value, put func(suffix string, tm *Term)) bool {
	return toCompsP(t, "", v, put)
}

func toCompsP(t types.Type, prefix string, v Value, put func(suffix string, tm *Term)) bool {
	if ok, s := isOpaque(t); ok {
		if s == nil {
			return true
		}
		sc, ok := v.(Scalar)
		if !ok {
			return false
		}
		put(prefix, sc.T)
		return true
	}
	switch u := t.Underlying().(type) {
	case *types.Basic:
		if u.Info()&types.IsString != 0 {
			sl, ok := v.(SliceV)
			if !ok {
				return false
			}
			put(prefix+".arr", sl.Arr)
			put(prefix+".off", x48(sl.Off))
			put(prefix+".len", x48(sl.Len))
			return true
		}
		sc, ok := v.(Scalar)
		if !ok {
			return false
		}
		put(prefix, sc.T)
		return true
	case *types.Pointer, *types.Map, *types.Chan, *types.Signature:
		switch sv := v.(type) {
		case Scalar:
			put(prefix, sv.T)
			return true
		case ClosureV:
			put(prefix, sv.Ref)
			return true
		}
		return false
	case *types.Slice:
		sl, ok := v.(SliceV)
		if !ok {
			return false
		}
		put(prefix+".arr", sl.Arr)
		put(prefix+".off", x48(sl.Off))
		put(prefix+".len", x48(sl.Len))
		put(prefix+".cap", x48(sl.Cap))
		return true
	case *types.Interface:
		iv, ok := v.(IfaceV)
		if !ok {
			return false
		}
		put(prefix+".tag", iv.Tag)
		put(prefix+".val", iv.Val)
		return true
	case *types.Struct:
		sv, ok := v.(StructV)
		if !ok || len(sv.F) != u.NumFields() {
			return false
		}
		for i := 0; i < u.NumFields(); i++ {
			if !toCompsP(u.Field(i).Type(), prefix+"."+u.Field(i).Name(), sv.F[i], put) {
				return false
			}
		}
		return true
	}
	return false
}

// State is the symbolic machine state at a program point.
type State struct {
	Heap         map[string]*Term // heap components (arrays indexed by Int refs)
	Cells        map[string]Value // address-taken locals
	CellTy       map[string]types.Type
	Vars         map[string]Value   // source-level locals (from DebugRef), for contracts
	Next         *Term              // allocation watermark
	Written      map[string][]*Term // per heap component: objects written since the last cut (nil element = wholesale)
	Ghost        map[string]*Term
	Locks        map[string]bool // lockset: names of held locks
	Defers       []deferred
	Shapes       map[string]*shape
	Writes       []*writeRec
	CutEpoch     int
	FreshObjs    map[*Term]int // objects allocated in this activation -> section epoch of the allocation (+1)
	G            *Term         // guard of the node being executed
	noRecord     int
	PrevCutGuard *Term
	PrevCutBlock *ssa.BasicBlock
	PrevCut      *State         // state right after the previous section cut (nil: function entry)
	Havoc        map[string]int // heap component prefixes havocked before materialisation -> epoch
}

type deferred struct {
	call interface{}
	args []Value
}

func NewState() *State {
	return &State{Heap: map[string]*Term{}, Cells: map[string]Value{}, CellTy: map[string]types.Type{}, Vars: map[string]Value{},
		Written: map[string][]*Term{}, Ghost: map[string]*Term{}, Locks: map[string]bool{}, Havoc: map[string]int{}, Shapes: map[string]*shape{}, FreshObjs: map[*Term]int{}}
}

func (s *State) Clone() *State {
	n := NewState()
	for k, v := range s.Heap {
		n.Heap[k] = v
	}
	for k, v := range s.Cells {
		n.Cells[k] = v
	}
	for k, v := range s.CellTy {
		n.CellTy[k] = v
	}
	for k, v := range s.Vars {
		n.Vars[k] = v
	}
	for k, v := range s.Written {
		n.Written[k] = append([]*Term{}, v...)
	}
	for k, v := range s.Ghost {
		n.Ghost[k] = v
	}
	for k, v := range s.Locks {
		n.Locks[k] = v
	}
	for k, v := range s.Havoc {
		n.Havoc[k] = v
	}
	for k, v := range s.Shapes {
		n.Shapes[k] = v
	}
	n.Defers = append([]deferred{}, s.Defers...)
	n.Next = s.Next
	n.PrevCut = s.PrevCut
	n.PrevCutGuard = s.PrevCutGuard
	n.PrevCutBlock = s.PrevCutBlock
	n.Writes = append([]*writeRec{}, s.Writes...)
	n.CutEpoch = s.CutEpoch
	n.G = s.G
	for k, v := range s.FreshObjs {
		n.FreshObjs[k] = v
	}
	return n
}

func sortedHeapKeys(m map[string]*Term) []string {
	ks := make([]string, 0, len(m))
	for k := range m {
		ks = append(ks, k)
	}
	sort.Strings(ks)
	return ks
}

// mergeValues merges two values of the same shape under condition c (c ? a : b).
func (x *Exec) mergeValues(c *Term, a, b Value, hint string) Value {
	switch av := a.(type) {
	case iterBox:
		// the ghost handle of a map iteration: identical on both branches of anything inside the loop body
		if bv, ok := b.(iterBox); ok && bv.it == av.it {
			return av
		}
		return UnknownV{}
	case Scalar:
		bv, ok := b.(Scalar)
		if !ok || !av.T.S.Eq(bv.T.S) {
			return UnknownV{Ty: av.Ty}
		}
		if av.T == bv.T {
			return av
		}
		return Scalar{T: x.VC.Def(hint, Ite(c, av.T, bv.T)), Ty: av.Ty}
	case SliceV:
		bv, ok := b.(SliceV)
		if !ok || av.Str != bv.Str {
			return UnknownV{Ty: av.Ty}
		}
		r := SliceV{Ty: av.Ty, Str: av.Str}
		r.Arr = x.mergeTerm(c, av.Arr, bv.Arr, hint+".arr")
		r.Off = x.mergeTerm(c, av.Off, bv.Off, hint+".off")
		r.Len = x.mergeTerm(c, av.Len, bv.Len, hint+".len")
		if !av.Str {
			r.Cap = x.mergeTerm(c, av.Cap, bv.Cap, hint+".cap")
		}
		return r
	case IfaceV:
		bv, ok := b.(IfaceV)
		if !ok {
			return UnknownV{Ty: av.Ty}
		}
		r := IfaceV{Ty: av.Ty, Tag: x.mergeTerm(c, av.Tag, bv.Tag, hint+".tag"), Val: x.mergeTerm(c, av.Val, bv.Val, hint+".val")}
		if av.Tag == bv.Tag && av.Val == bv.Val {
			r.Box = av.Box
		}
		return r
	case StructV:
		bv, ok := b.(StructV)
		if !ok || len(av.F) != len(bv.F) {
			return UnknownV{Ty: av.Ty}
		}
		r := StructV{Ty: av.Ty}
		for i := range av.F {
			r.F = append(r.F, x.mergeValues(c, av.F[i], bv.F[i], fmt.Sprintf("%s.f%d", hint, i)))
		}
		return r
	case TupleV:
		bv, ok := b.(TupleV)
		if !ok || len(av) != len(bv) {
			return UnknownV{}
		}
		r := TupleV{}
		for i := range av {
			r = append(r, x.mergeValues(c, av[i], bv[i], fmt.Sprintf("%s.%d", hint, i)))
		}
		return r
	case LocV:
		bv, ok := b.(LocV)
		if ok && av.Kind == bv.Kind && av.Cell == bv.Cell && fmt.Sprint(av.Path) == fmt.Sprint(bv.Path) && av.Outer == bv.Outer {
			r := av
			if av.Obj != nil && bv.Obj != nil {
				r.Obj = x.mergeTerm(c, av.Obj, bv.Obj, hint+".obj")
			}
			if av.Idx != nil && bv.Idx != nil {
				r.Idx = x.mergeTerm(c, av.Idx, bv.Idx, hint+".idx")
			}
			return r
		}
		return UnknownV{Ty: av.Ty}
	case ClosureV:
		bv, ok := b.(ClosureV)
		if ok && av.Fn == bv.Fn && av.Ref == bv.Ref {
			return av
		}
		if ok {
			return Scalar{T: x.mergeTerm(c, av.Ref, bv.Ref, hint), Ty: av.Ty}
		}
		if bs, ok := b.(Scalar); ok {
			return Scalar{T: x.mergeTerm(c, av.Ref, bs.T, hint), Ty: av.Ty}
		}
		return UnknownV{Ty: av.Ty}
	case UnknownV:
		return av
	}
	return UnknownV{}
}

func (x *Exec) mergeTerm(c, a, b *Term, hint string) *Term {
	if a == b {
		return a
	}
	// keep zero-extension structure (48-bit slice components) visible
	if strings.HasPrefix(a.Op, "(_ zero_extend") && a.Op == b.Op && a.Args[0].S.Eq(b.Args[0].S) {
		return mk(a.Op, a.S, x.VC.Def(hint, Ite(c, a.Args[0], b.Args[0])))
	}
	return x.VC.Def(hint, Ite(c, a, b))
}
