package govc

import (
	"go/ast"
	"context"
	"fmt"
	"go/token"
	"go/types"
	"os"
	"sort"
	"strings"
	"sync"
	"sync/atomic"
	"time"

	"golang.org/x/tools/go/ssa"
)

// OblResult is the verdict for one obligation id (possibly several sub-queries).
type OblResult struct {
	ID          string   `json:"id"`
	Fn          string   `json:"fn"`
	Kind        string   `json:"kind"`
	Expr        string   `json:"expr,omitempty"`
	Pos         string   `json:"pos,omitempty"`
	Props       []string `json:"props"`
	Status      string   `json:"status"` // discharged, failed, unknown, error
	Solver      string   `json:"solver,omitempty"`
	Ms          int64    `json:"ms"`
	Queries     int      `json:"queries"`
	Detail      string   `json:"detail,omitempty"`
	MustSat     bool     `json:"must_sat,omitempty"`
	satSeen     bool
	obls        []*Obligation
	failed      *Obligation
	query       string
	queryAlt    string
	q           *Query
	failedPiece *Term
	model       string
}

// FuncReport is the outcome of verifying one function case.
type FuncReport struct {
	Name        string
	Case        string
	Props       []string
	Results     []*OblResult
	Warnings    []string
	Assumptions []string
	Trusted     bool
	GenMs       int64
}

// GenerateFunc builds the obligations of one function (all its cases).
func GenerateFunc(p *Program, name string) ([]*Exec, error) {
	fs, ok := p.Spec.Funcs[name]
	if !ok {
		return nil, fmt.Errorf("no contract for %s", name)
	}
	fn := p.Funcs[name]
	if fn == nil {
		return nil, fmt.Errorf("contract for unknown function %s", name)
	}
	var out []*Exec
	for _, cs := range fs.EffectiveCases() {
		x := NewExec(p, fn, name, fs, cs)
		x.generate()
		out = append(out, x)
	}
	return out, nil
}

func (x *Exec) generate() {
	fn := x.Top
	st := NewState()
	st.Next = Const("next0", IntS)
	// objects 1..2999 are reserved for sentinel values, string literals and function values; they exist before the activation
	x.VC.Assume(True, IntCmp(">=", st.Next, IntLit(3000)), "next0")
	var args []Value
	for _, p := range fn.Params {
		v := x.freshValue(p.Type(), "p."+p.Name(), True, st)
		if pt, ok := p.Type().Underlying().(*types.Pointer); ok {
			if _, isStruct := pt.Elem().Underlying().(*types.Struct); !isStruct {
				v = LocV{Kind: "box", Obj: v.(Scalar).T, Ty: p.Type()}
			}
		}
		args = append(args, v)
		x.params[p.Name()] = v
	}
	var bindings []Value
	for _, fv := range fn.FreeVars {
		v := x.freeVarValue(fv, st)
		bindings = append(bindings, v)
		x.params[fv.Name()] = v
		if lv, ok := v.(LocV); ok && lv.Kind == "cell" {
			// contracts name the captured variable itself (its value on entry), not its cell
			x.params[fv.Name()] = st.Cells[lv.Cell]
		}
	}
	x.Entry = st.Clone()
	x.setupGhostEntry(st)
	x.opaquePure = map[string]bool{}
	for _, c := range x.Case.Clauses {
		if c.Kind == "opaque" {
			for _, nm := range strings.Split(c.Text, ",") {
				x.opaquePure[strings.TrimSpace(nm)] = true
			}
		}
	}
	// axioms about package-level state
	for _, c := range x.P.Spec.Axioms {
		aenv := x.topSpecEnv(st, True, true)
		aenv.vars = map[string]Value{}
		g := aenv.EvalBool(c.Expr)
		x.reportSpecErrors(aenv, "axiom", c)
		x.VC.Assume(True, g, "axiom")
		x.VC.Assumptions["axiom (assumed about package-level variables): "+c.Text] = true
	}
	// requires
	env := x.topSpecEnv(st, True, true)
	var pre []*Term
	for _, c := range x.Case.Clauses {
		if c.Kind == "requires" {
			g := env.EvalBool(c.Expr)
			x.reportSpecErrors(env, x.TopName, c)
			x.VC.Assume(True, g, "requires")
			pre = append(pre, g)
		}
	}
	// materialise, in the entry state, every heap component the postconditions mention: states that are merged
	// after only one branch havocked such a component then keep the other branch's value
	{
		errs := []string{}
		menv := x.topSpecEnv(st, True, false)
		menv.errs = &errs
		for _, c := range x.Case.Clauses {
			if c.Kind == "ensures" {
				menv.eval(c.Expr)
			}
		}
	}
	// ghost definitions: a ghost flag nobody writes is defined, for this activation, by a formula over the entry state
	for _, c := range x.Case.Clauses {
		if c.Kind != "ghostdef" {
			continue
		}
		tn := strings.TrimPrefix(c.Params, "*")
		ty := x.P.LookupType(tn)
		if ty == nil || !strings.HasPrefix(c.Name, "gb_") {
			x.Oblige("spec-error", "ghostdef: unknown type or name "+c.Text, "", 0, True, False, nil)
			continue
		}
		ov := x.VC.Fresh("go", IntS)
		denv := x.topSpecEnv(st, True, false)
		denv.vars[c.Block] = Scalar{T: ov, Ty: types.NewPointer(ty)}
		body := denv.EvalBool(c.Expr)
		x.reportSpecErrors(denv, x.TopName, c)
		flag := x.ghostField(st, c.Name[3:], ov, BoolS)
		x.VC.AssumeForall([]*Term{ov}, True, Eq(flag, body), "ghostdef")
	}
	// structural clauses: nocall f
	for _, c := range x.Case.Clauses {
		if c.Kind != "nocall" {
			continue
		}
		found := token.NoPos
		for _, b := range fn.Blocks {
			for _, ins := range b.Instrs {
				var cc *ssa.CallCommon
				switch v := ins.(type) {
				case *ssa.Call:
					cc = &v.Call
				case *ssa.Defer:
					cc = &v.Call
				case *ssa.Go:
					cc = &v.Call
				}
				if cc != nil && x.calleeDisplayName(cc) == c.Text {
					found = ins.Pos()
				}
			}
		}
		goal := True
		if found != token.NoPos {
			goal = False
		}
		x.Oblige("nocall", c.Text+" is not called here", fmt.Sprint(found), found, True, goal, c.Props)
	}
	o := x.Oblige("vacuity", "requires satisfiable", "", fn.Pos(), True, True, nil)
	if o != nil {
		o.MustSat = true
	}
	vals, out, rg := x.runFunc(fn, args, bindings, st, True, x.Case.Clauses, true)
	if rg == False {
		x.VC.Warnf("%s: no return reachable", x.TopName)
		return
	}
	x.VC.CurTag = nil
	r := x.Oblige("reach", "return reachable", "", fn.Pos(), rg, True, nil)
	if r != nil {
		r.MustSat = true
	}
	// postconditions
	penv := x.topSpecEnv(out, rg, false)
	for i, nm := range resultNames(fn.Signature) {
		if i < len(vals) {
			penv.vars[nm] = vals[i]
			if i == 0 {
				penv.vars["result"] = vals[0]
			}
		}
	}
	// ghost updates declared by the contract happen at the return
	for _, c := range x.Case.Clauses {
		if c.Kind != "ghostset" {
			continue
		}
		for _, rp := range x.topRets {
			renv := x.topSpecEnv(rp.st, rp.guard, true)
			for i, nm := range resultNames(fn.Signature) {
				if i < len(rp.vals) {
					renv.vars[nm] = rp.vals[i]
					if i == 0 {
						renv.vars["result"] = rp.vals[0]
					}
				}
			}
			x.applyGhostSet(c, renv, rp.st)
			x.reportSpecErrors(renv, x.TopName, c)
		}
		x.applyGhostSet(c, penv, out)
		x.reportSpecErrors(penv, x.TopName, c)
	}
	// induct forall(j, lo, hi, body) by hints: a lemma about the return state proved by strong induction on j. Obligation:
	// for a fresh j in [lo,hi), body(j) follows from the path facts and the hypothesis body(k) at each hint k with lo <= k < j.
	// Afterwards forall j in [lo,hi). body(j) is assumed at that return point (sound by strong induction: the state is fixed).
	for _, c := range x.Case.Clauses {
		if c.Kind != "induct" {
			continue
		}
		call, ok := c.Expr.(*ast.CallExpr)
		var id *ast.Ident
		if ok && len(call.Args) == 4 {
			if f, isId := call.Fun.(*ast.Ident); isId && f.Name == "forall" {
				id, _ = call.Args[0].(*ast.Ident)
			}
		}
		if id == nil {
			x.Oblige("spec-error", "induct: forall(j, lo, hi, body) expected: "+c.Text, "", 0, True, False, nil)
			continue
		}
		for _, rp := range x.topRets {
			x.VC.CurTag = rp.node
			renv := x.topSpecEnv(rp.st, rp.guard, false)
			for i, nm := range resultNames(fn.Signature) {
				if i < len(rp.vals) {
					renv.vars[nm] = rp.vals[i]
					if i == 0 {
						renv.vars["result"] = rp.vals[0]
					}
				}
			}
			lo, hi := renv.eval(call.Args[1]), renv.eval(call.Args[2])
			lo, hi = renv.coerce(lo, hi)
			ls, ok1 := lo.(Scalar)
			hs, ok2 := hi.(Scalar)
			if !ok1 || !ok2 || ls.T.S.Kind != "BV" {
				x.Oblige("spec-error", "induct: bounds must be machine integers, one of them not a constant: "+c.Text, "", 0, True, False, nil)
				continue
			}
			ty := ls.Ty
			if ty == nil {
				ty = hs.Ty
			}
			signed := ty != nil && isSigned(ty)
			jv := x.VC.Fresh("ind_"+id.Name, ls.T.S)
			inRange := func(l, v, h *Term) *Term {
				return And(BVCmp(pick(signed, "bvsle", "bvule"), l, v), BVCmp(pick(signed, "bvslt", "bvult"), v, h))
			}
			sub := renv.clone()
			sub.vars[id.Name] = Scalar{T: jv, Ty: ty}
			goal := sub.EvalBool(call.Args[3])
			hyp := []*Term{rp.guard, inRange(ls.T, jv, hs.T)}
			for _, h := range c.Frames {
				kv, _ := sub.coerce(sub.eval(h), Scalar{T: jv, Ty: ty})
				ks, isS := kv.(Scalar)
				if !isS {
					x.Oblige("spec-error", "induct: bad hint in "+c.Text, "", 0, True, False, nil)
					continue
				}
				sub2 := renv.clone()
				sub2.vars[id.Name] = Scalar{T: ks.T, Ty: ty}
				hyp = append(hyp, Implies(inRange(ls.T, ks.T, jv), sub2.EvalBool(call.Args[3])))
			}
			x.reportSpecErrors(renv, x.TopName, c)
			x.Oblige("induct", clauseLabel(c), fmt.Sprint(c.Line), fn.Pos(), And(hyp...), goal, c.Props)
			aenv := x.topSpecEnv(rp.st, rp.guard, true)
			for k, v := range renv.vars {
				aenv.vars[k] = v
			}
			x.VC.Assume(rp.guard, aenv.EvalBool(c.Expr), "induct")
		}
		x.VC.CurTag = nil
	}
	// postconditions are proved at every return point separately (states are not merged in the goal)
	for _, c := range x.Case.Clauses {
		if c.Kind != "ensures" {
			continue
		}
		for _, rp := range x.topRets {
			x.VC.CurTag = rp.node
			renv := x.topSpecEnv(rp.st, rp.guard, false)
			for i, nm := range resultNames(fn.Signature) {
				if i < len(rp.vals) {
					renv.vars[nm] = rp.vals[i]
					if i == 0 {
						renv.vars["result"] = rp.vals[0]
					}
				}
			}
			g := renv.EvalBool(c.Expr)
			x.reportSpecErrors(renv, x.TopName, c)
			x.Oblige("post", clauseLabel(c), fmt.Sprint(c.Line), fn.Pos(), rp.guard, g, c.Props)
		}
	}
	x.VC.CurTag = nil
	x.frameObligations(out, rg, penv)
	x.ghostExit(out, rg)
}

func (x *Exec) freeVarValue(fv *ssa.FreeVar, st *State) Value {
	// captured variables are pointers to cells
	pt, ok := fv.Type().Underlying().(*types.Pointer)
	if !ok {
		return x.freshValue(fv.Type(), "fv."+fv.Name(), True, st)
	}
	key := "cell:captured." + fv.Name()
	st.Cells[key] = x.freshValue(pt.Elem(), "fv."+fv.Name(), True, st)
	st.CellTy[key] = pt.Elem()
	st.Vars[fv.Name()] = st.Cells[key]
	return LocV{Kind: "cell", Cell: key, Ty: fv.Type()}
}

// frameObligations: for every declared modifies target, nothing outside it changed in that component;
// components written but not declared are havocked wholesale at call sites (no obligation needed).
func (x *Exec) frameObligations(out *State, rg *Term, penv *SpecEnv) {
	entryEnv := x.topSpecEnv(x.Entry, True, false)
	type rng struct{ mt modTarget }
	byKey := map[string][]modTarget{}
	var order []string
	freshOnly := false
	for _, c := range x.Case.Clauses {
		if c.Kind == "modifies" && c.Text == "fresh" {
			freshOnly = true
		}
	}
	for _, c := range x.Case.Clauses {
		if c.Kind != "modifies" || c.Text == "fresh" {
			continue
		}
		mt, ok := x.evalModifies(c, entryEnv)
		x.reportSpecErrors(entryEnv, x.TopName, c)
		if !ok {
			x.Oblige("spec-error", "cannot evaluate modifies "+c.Text, "", 0, True, False, nil)
			continue
		}
		var k string
		switch mt.kind {
		case "range":
			k = mt.key
		case "loc":
			k = locKey(mt.loc)
		case "obj":
			// every field of one object: all components "<Type>.<field>"
			k = mt.key
		default:
			continue
		}
		if _, ok := byKey[k]; !ok {
			order = append(order, k)
		}
		byKey[k] = append(byKey[k], mt)
	}
	if freshOnly {
		// `modifies fresh`: every write to a component without a declared target is to an object allocated here
		for _, w := range out.Writes {
			covered := false
			for _, k := range order {
				if w.key == k || strings.HasPrefix(w.key, k+".") {
					covered = true
				}
			}
			if covered || w.fresh || strings.HasPrefix(w.key, "ghost.") {
				continue
			}
			goal := False
			if w.obj != nil {
				goal = IntCmp(">=", w.obj, x.Entry.Next)
			}
			x.Oblige("frame", "fresh-only:"+w.key, "", x.Top.Pos(), And(rg, w.guard), goal, nil)
		}
	}
	for _, k := range order {
		mts := byKey[k]
		for _, w := range out.Writes {
			if w.key != k && !strings.HasPrefix(w.key, k+".") {
				continue
			}
			if w.fresh {
				continue
			}
			var goal *Term
			if w.obj == nil {
				goal = False
			} else {
				var allowed []*Term
				for _, mt := range mts {
					if mt.kind == "range" {
						if w.lo == nil {
							continue
						}
						lo := BVBin("bvadd", mt.sl.Off, mt.lo)
						hi := BVBin("bvadd", mt.sl.Off, mt.hi)
						allowed = append(allowed, And(Eq(w.obj, mt.sl.Arr), BVCmp("bvule", lo, w.lo), BVCmp("bvule", w.lo, w.hi), BVCmp("bvule", w.hi, hi)))
					} else if mt.kind == "obj" {
						allowed = append(allowed, Eq(w.obj, mt.lo))
					} else if mt.loc.Obj != nil {
						allowed = append(allowed, Eq(w.obj, mt.loc.Obj))
					}
				}
				// objects allocated by this activation are invisible to the caller
				allowed = append(allowed, IntCmp(">=", w.obj, x.Entry.Next))
				goal = Or(allowed...)
			}
			x.Oblige("frame", w.key, "", x.Top.Pos(), And(rg, w.guard), goal, nil)
		}
	}
}

// ---------- solving ----------

type Options struct {
	Timeout     time.Duration
	Workers     int
	KeepQueries bool
	Props       map[string]bool // nil = all
	Verbose     bool
}

// SolveAll discharges the obligations of the given executions in parallel.
func SolveAll(xs []*Exec, opt Options) []*FuncReport {
	var reports []*FuncReport
	var jobs []struct {
		o   *Obligation
		res *OblResult
	}
	for _, x := range xs {
		fr := &FuncReport{Name: x.TopName, Props: x.Props, Warnings: x.VC.Warn}
		if x.Case != nil {
			fr.Case = x.Case.Name
		}
		for a := range x.VC.Assumptions {
			fr.Assumptions = append(fr.Assumptions, a)
		}
		sort.Strings(fr.Assumptions)
		byID := map[string]*OblResult{}
		for _, o := range x.VC.Obls {
			if opt.Props != nil {
				keep := false
				for _, p := range o.Props {
					if opt.Props[p] {
						keep = true
					}
				}
				if !keep {
					continue
				}
			}
			r, ok := byID[o.ID]
			if !ok {
				r = &OblResult{ID: o.ID, Fn: o.Fn, Kind: o.Kind, Expr: o.Expr, Props: o.Props, Status: "discharged", MustSat: o.MustSat}
				if o.Pos.IsValid() {
					r.Pos = fmt.Sprintf("%s:%d", shortFile(o.Pos.Filename), o.Pos.Line)
				}
				byID[o.ID] = r
				fr.Results = append(fr.Results, r)
			}
			r.obls = append(r.obls, o)
			jobs = append(jobs, struct {
				o   *Obligation
				res *OblResult
			}{o, r})
		}
		reports = append(reports, fr)
	}
	runJobs(jobs2(jobs), opt)
	return reports
}

type solveJob struct {
	o   *Obligation
	res *OblResult
}

func runJobs(jobs []solveJob, opt Options) {
	if opt.Workers <= 0 {
		opt.Workers = 8
	}
	var mu sync.Mutex
	var wg sync.WaitGroup
	ch := make(chan solveJob)
	for w := 0; w < opt.Workers; w++ {
		wg.Add(1)
		go func() {
			defer wg.Done()
			for j := range ch {
				sr, q := solveOne(j.o, opt)
				if !j.o.MustSat && sr.Status != "unsat" {
					atomic.AddInt32(&failedSoFar, 1)
				}
				mu.Lock()
				applyResult(j.res, j.o, sr, q)
				mu.Unlock()
			}
		}()
	}
	for _, j := range jobs {
		ch <- j
	}
	close(ch)
	wg.Wait()
}

// ResolveAgain re-runs the obligations of undecided results with other options (longer timeout).
// failedSoFar counts obligations that were not discharged in this process (see solveOne).
var failedSoFar int32

func ResolveAgain(rs []*OblResult, opt Options) {
	var jobs []solveJob
	for _, r := range rs {
		r.Status = "discharged"
		r.Detail = ""
		r.failed = nil
		r.Queries = 0
		for _, o := range r.obls {
			jobs = append(jobs, solveJob{o, r})
		}
	}
	runJobs(jobs, opt)
}

func solveOne(o *Obligation, opt Options) (SolverResult, *Query) {
	var sr SolverResult
	trivial := false
	if !o.MustSat && (o.Goal == True || o.Guard == False) {
		trivial = true
	}
	var q *Query
	if trivial {
		return SolverResult{Status: "unsat", Solver: "trivial"}, nil
	}
	if o.MustSat {
		q = o.vc.BuildQuery(o, nil)
		return SolveQ(q, opt.Timeout), q
	}
	// split the goal into conjuncts; each piece: premise-selected attempts first, the full query last
	var total int64
	sr = SolverResult{Status: "unsat", Solver: "split"}
	for _, piece := range SplitGoal(o.Goal, 64) {
		if piece == True {
			continue
		}
		var pr SolverResult
		scalar := o.vc.ScalarGoal(o, piece)
		type attempt struct {
			light bool
			depth int
			frac  int // timeout divisor
		}
		var plan []attempt
		if scalar {
			plan = []attempt{{true, 2, 4}, {true, 102, 3}, {true, 0, 2}, {false, 2, 3}, {false, 4, 3}, {false, 0, 1}, {false, 2002, 2}}
		} else {
			plan = []attempt{{false, 2, 4}, {false, 4, 3}, {false, 102, 3}, {false, 0, 1}, {false, 2002, 2}, {false, 2004, 2}, {false, 2000, 1}, {false, 1000, 1}}
			if os.Getenv("GOVC_NOSINE") != "" {
				plan = []attempt{{false, 0, 1}}
			}
		}
		if atomic.LoadInt32(&failedSoFar) >= 6 && len(plan) > 4 {
			// the tree is already known to violate obligations: the remaining ones get the cheaper attempts only
			// (a failure costs the whole plan; the report lists them all either way)
			plan = plan[:4]
		}
		for _, at := range plan {
			tb := time.Now()
			q = o.vc.BuildQueryRel(o, piece, nil, at.light, at.depth)
			buildMs := time.Since(tb).Milliseconds()
			pr = SolveQ(q, opt.Timeout/time.Duration(at.frac))
			if dbg := os.Getenv("GOVC_DEBUGOBL"); dbg != "" && strings.Contains(o.ID, dbg) {
				// debugging aid: ask the (untrusted) int-blasting oracle whether this attempt is provable at all
				f := newQueryFile(q.Text + "(check-sat)\n")
				ctx, cancel := context.WithTimeout(context.Background(), 30*time.Second)
				ost, _ := runSolver(ctx, solvers[guideSolver], f)
				cancel()
				txt := TermText(piece)
				if len(txt) > 160 {
					txt = txt[:160]
				}
				fmt.Fprintf(os.Stderr, "DEBUGOBL %s light=%v depth=%d asserts=%d inst=%d -> %s (%dms, %s); oracle says %s; file %s :: %s\n", o.ID, at.light, at.depth, q.NAsserts, q.NInst, pr.Status, pr.Ms, pr.Solver, ost, f, txt)
			}
			if os.Getenv("GOVC_TRACE") != "" {
				fmt.Fprintf(os.Stderr, "TIME build=%dms solve=%dms light=%v %s alt=%v why=%s\n", buildMs, pr.Ms, at.light, pr.Solver, q.Alt != nil, q.AltWhy)
			}
			total += pr.Ms
			if pr.Status == "unsat" {
				break
			}
			if d := os.Getenv("GOVC_LIGHTDUMP"); d != "" {
				os.MkdirAll(d, 0o755)
				os.WriteFile(fmt.Sprintf("%s/%s.l%v.d%d.smt2", d, sanitize(o.ID), at.light, at.depth), []byte(q.Text+"(check-sat)\n"), 0o644)
			}
		}
		if os.Getenv("GOVC_TRACE") != "" {
			txt := TermText(piece)
			if len(txt) > 300 {
				txt = txt[:300]
			}
			fmt.Fprintf(os.Stderr, "TRACE %s piece %s %dms asserts=%d inst=%d scalar=%v :: %s\n", o.ID, pr.Status, pr.Ms, q.NAsserts, q.NInst, scalar, txt)
		}
		if pr.Status != "unsat" {
			sr = pr
			sr.failedPiece = piece
			break
		}
		sr.Solver = pr.Solver
	}
	sr.Ms = total
	return sr, q
}

func applyResult(r *OblResult, o *Obligation, sr SolverResult, q *Query) {
	r.Queries++
	r.Ms += sr.Ms
	want := "unsat"
	if o.MustSat {
		want = "sat"
	}
	if sr.Status == want {
		if r.Solver == "" || r.Solver == "trivial" {
			r.Solver = sr.Solver
		}
		if o.MustSat {
			// reachability of a program point visited on several paths / unrollings: one feasible visit suffices
			r.satSeen = true
			r.Status = "discharged"
			r.Detail = ""
		}
		return
	}
	if o.MustSat && r.satSeen {
		return
	}
	bad := "unknown"
	if sr.Status == "sat" || sr.Status == "unsat" {
		bad = "failed"
	}
	if o.MustSat && bad == "unknown" {
		// vacuity/reachability could not be decided within the budget: not a failure
		if r.Detail == "" {
			r.Detail = "undecided"
		}
		return
	}
	if r.Status == "discharged" || (r.Status == "unknown" && bad == "failed") {
		r.Status = bad
		r.failed = o
		r.failedPiece = sr.failedPiece
		r.Solver = sr.Solver
		r.Detail = sr.Status
		if sr.failedPiece != nil {
			fp := sr.failedPiece
			txt := TermText(fp)
			if fp.Op == "=>" {
				c := TermText(fp.Args[1])
				if len(c) > 500 {
					c = c[:500] + "..."
				}
				h := TermText(fp.Args[0])
				if len(h) > 200 {
					h = h[:200] + "..."
				}
				txt = "CONSEQUENT " + c + "  UNDER " + h
			} else if len(txt) > 500 {
				txt = txt[:500] + "..."
			}
			r.Detail += " on piece " + txt
		}
		if q != nil {
			r.query = q.Text
			r.q = q
			if q.Alt != nil {
				r.queryAlt = q.Alt.Text
			}
		}
	}
}

func jobs2(js []struct {
	o   *Obligation
	res *OblResult
}) []solveJob {
	out := make([]solveJob, len(js))
	for i, j := range js {
		out[i] = solveJob{j.o, j.res}
	}
	return out
}

func shortFile(f string) string {
	if k := strings.LastIndex(f, "/"); k >= 0 {
		return f[k+1:]
	}
	return f
}

// DumpFailed writes the failing query of a result into dir.
func DumpFailed(r *OblResult, dir string) {
	if r.query == "" {
		return
	}
	name := sanitize(r.ID)
	if len(name) > 120 {
		name = name[:120]
	}
	os.WriteFile(dir+"/"+name+".smt2", []byte(r.query+"(check-sat)\n(get-model)\n"), 0o644)
	if r.queryAlt != "" {
		os.WriteFile(dir+"/"+name+".int.smt2", []byte(r.queryAlt+"(check-sat)\n"), 0o644)
	}
}
