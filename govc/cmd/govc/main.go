package main

import (
	"flag"
	"fmt"
	"os"
	"runtime/pprof"
	"strings"
	"time"

	"govc"
)

func checkMain(args []string) {
	fs := flag.NewFlagSet("check", flag.ExitOnError)
	repo := fs.String("repo", "/repo", "repository directory")
	verif := fs.String("verif", "/verif", "verification directory")
	prop := fs.String("prop", "", "property id")
	tier := fs.String("tier", "quick", "quick or thorough")
	workers := fs.Int("j", 8, "parallel obligations")
	only := fs.String("fn", "", "restrict to these functions (debugging)")
	fs.Parse(args)
	cfg := govc.CheckConfig{Repo: *repo, VerifDir: *verif, Property: *prop, Tier: *tier, Workers: *workers}
	if s := os.Getenv("VERIF_SEED"); s != "" {
		fmt.Sscan(s, &cfg.Seed)
	}
	if *only != "" {
		cfg.OnlyFuncs = strings.Split(*only, ",")
	}
	if *tier == "thorough" {
		cfg.Timeout, cfg.Retry = 60*time.Second, 180*time.Second
	} else {
		cfg.Timeout, cfg.Retry = 20*time.Second, 90*time.Second
	}
	os.Exit(govc.RunCheck(cfg))
}

func main() {
	if len(os.Args) > 1 && os.Args[1] == "check" {
		checkMain(os.Args[2:])
		return
	}
	dir := flag.String("repo", "/repo", "repository directory")
	spec := flag.String("spec", "", "contract file (default <repo>/contracts_verif.go)")
	fnFlag := flag.String("fn", "", "comma-separated function names to verify (default: all under contract)")
	timeout := flag.Duration("timeout", 10*time.Second, "per-query timeout")
	workers := flag.Int("j", 14, "parallel solver processes")
	verbose := flag.Bool("v", false, "verbose")
	dump := flag.String("dump", "", "write failing queries into this directory")
	ssadump := flag.String("ssa", "", "print SSA of the named function and exit")
	cpuprof := flag.String("cpuprofile", "", "write CPU profile")
	flag.Parse()
	if *cpuprof != "" {
		f, _ := os.Create(*cpuprof)
		pprof.StartCPUProfile(f)
		defer pprof.StopCPUProfile()
	}
	p, err := govc.Load(*dir, *spec)
	if err != nil {
		fmt.Fprintln(os.Stderr, "load:", err)
		os.Exit(2)
	}
	defer govc.Cleanup()
	if *ssadump != "" {
		fn := p.Funcs[*ssadump]
		if fn == nil {
			fmt.Println("unknown function; known:")
			for _, n := range p.FuncNames() {
				fmt.Println("  ", n)
			}
			os.Exit(2)
		}
		fn.WriteTo(os.Stdout)
		govc.PrintLoops(fn)
		return
	}
	var names []string
	if *fnFlag != "" {
		names = strings.Split(*fnFlag, ",")
	} else {
		for _, n := range p.Spec.Order {
			fs := p.Spec.Funcs[n]
			if fs.Trusted || fs.Extern || fs.Iface || fs.Inline {
				continue
			}
			names = append(names, n)
		}
	}
	var xs []*govc.Exec
	for _, n := range names {
		t0 := time.Now()
		ex, err := govc.GenerateFunc(p, n)
		if err != nil {
			fmt.Fprintln(os.Stderr, "generate:", err)
			os.Exit(2)
		}
		if *verbose {
			for _, x := range ex {
				fmt.Printf("generated %s: %d obligations, %d facts in %v\n", n, len(x.VC.Obls), len(x.VC.Facts), time.Since(t0))
			}
		}
		xs = append(xs, ex...)
	}
	reps := govc.SolveAll(xs, govc.Options{Timeout: *timeout, Workers: *workers})
	bad := 0
	for _, fr := range reps {
		fmt.Printf("== %s [%s] props=%v\n", fr.Name, fr.Case, fr.Props)
		for _, w := range fr.Warnings {
			fmt.Printf("   warning: %s\n", w)
		}
		for _, r := range fr.Results {
			mark := "ok  "
			if r.Status != "discharged" {
				mark = "FAIL"
				bad++
			}
			fmt.Printf("   %s %-10s %6dms q=%d %s  (%s) %s\n", mark, r.Status, r.Ms, r.Queries, r.ID, r.Pos, r.Solver)
			if r.Status != "discharged" && *verbose {
				fmt.Printf("        %s\n", r.Detail)
			}
			if r.Status != "discharged" && *dump != "" {
				os.MkdirAll(*dump, 0o755)
				govc.DumpFailed(r, *dump)
			}
		}
	}
	if bad > 0 {
		govc.Cleanup()
		pprof.StopCPUProfile()
		os.Exit(1)
	}
}
