package govc

import (
	"fmt"
	"math/big"
	"strings"
)

// Sound integer translation of bit-vector queries ("int-blasting" done by the engine itself).
//
// Every bit-vector term t of width w is mapped to an Int term t' with the invariant 0 <= t' < 2^w, such that
// for every model of the original assertions, mapping each bit-vector value to its unsigned integer value
// gives a model of the translated assertions. Hence: translated query unsat  =>  original query unsat.
// (The converse is not needed and not claimed.) Operations that have no exact linear translation
// (variable*variable, variable shifts, or/and/xor of two non-constant operands, signed division) make the
// translation fail, in which case only the bit-vector query is used.

type iblaster struct {
	defOf map[string]*Term // constant name -> defining expression (bit-vector level)
	bmemo map[*Term]*big.Int
	memo  map[*Term]*Term
	side  []*Term
	sideK map[*Term]bool
	ok    bool
	why   string
}

func pow2(k int) *big.Int { return new(big.Int).Lsh(big.NewInt(1), uint(k)) }

func IntBig(v *big.Int) *Term {
	if v.Sign() < 0 {
		return intern(&Term{Op: "lit", Name: "(- " + new(big.Int).Neg(v).String() + ")", S: IntS})
	}
	return intern(&Term{Op: "lit", Name: v.String(), S: IntS})
}

func mapSort(s *Sort) *Sort {
	switch s.Kind {
	case "BV":
		return IntS
	case "Array":
		return Arr(mapSort(s.Idx), mapSort(s.Elem))
	}
	return s
}

func hasBV(s *Sort) bool {
	switch s.Kind {
	case "BV":
		return true
	case "Array":
		return hasBV(s.Idx) || hasBV(s.Elem)
	}
	return false
}

func bvLitBig(t *Term) (*big.Int, bool) {
	if t.Op != "lit" || t.S.Kind != "BV" {
		return nil, false
	}
	n := new(big.Int)
	if strings.HasPrefix(t.Name, "#x") {
		n.SetString(t.Name[2:], 16)
	} else {
		n.SetString(t.Name[2:], 2)
	}
	return n, true
}

func (b *iblaster) fail(why string) *Term {
	if b.ok {
		b.ok = false
		b.why = why
	}
	return IntLit(0)
}

func (b *iblaster) rangeFact(t *Term, w int) {
	if b.sideK[t] {
		return
	}
	b.sideK[t] = true
	b.side = append(b.side, And(IntCmp("<=", IntLit(0), t), IntCmp("<", t, IntBig(pow2(w)))))
}

func imod(a *Term, m *big.Int) *Term  { return mk("mod", IntS, a, IntBig(m)) }
func idiv(a *Term, m *big.Int) *Term  { return mk("div", IntS, a, IntBig(m)) }
func iadd(a, b *Term) *Term           { return mk("+", IntS, a, b) }
func isub(a, b *Term) *Term           { return mk("-", IntS, a, b) }
func imulc(c *big.Int, a *Term) *Term { return mk("*", IntS, IntBig(c), a) }

// signedOf: the signed value of an unsigned representative.
func signedOf(a *Term, w int) *Term {
	return Ite(IntCmp(">=", a, IntBig(pow2(w-1))), isub(a, IntBig(pow2(w))), a)
}

// contiguous mask: bits lo..hi set
func contiguous(m *big.Int, w int) (lo, hi int, ok bool) {
	if m.Sign() == 0 {
		return 0, 0, false
	}
	lo = int(m.TrailingZeroBits())
	sh := new(big.Int).Rsh(m, uint(lo))
	// sh must be 2^k - 1
	k := sh.BitLen()
	if new(big.Int).Add(sh, big.NewInt(1)).Cmp(pow2(k)) != 0 {
		return 0, 0, false
	}
	return lo, lo + k - 1, true
}

// andMask: a & m for a contiguous constant mask.
func andMask(a *Term, m *big.Int, w int) (*Term, bool) {
	if m.Sign() == 0 {
		return IntLit(0), true
	}
	lo, hi, ok := contiguous(m, w)
	if !ok {
		return nil, false
	}
	if lo == 0 {
		if hi == w-1 {
			return a, true
		}
		return imod(a, pow2(hi+1)), true
	}
	field := imod(idiv(a, pow2(lo)), pow2(hi-lo+1))
	return imulc(pow2(lo), field), true
}

// bound returns an exclusive upper bound of the unsigned value of bit-vector term t (at most 2^w),
// derived syntactically (zero extensions, literals, definitions). Used to omit wrap-around cases that cannot occur.
func (b *iblaster) bound(t *Term) *big.Int {
	if r, ok := b.bmemo[t]; ok {
		return r
	}
	w := t.S.W
	full := pow2(w)
	b.bmemo[t] = full // cycle guard
	r := full
	minB := func(x, y *big.Int) *big.Int {
		if x.Cmp(y) < 0 {
			return x
		}
		return y
	}
	switch {
	case t.Op == "lit":
		v, _ := bvLitBig(t)
		r = new(big.Int).Add(v, big.NewInt(1))
	case t.Op == "const":
		if d, ok := b.defOf[t.Name]; ok {
			r = b.bound(d)
		}
	case strings.HasPrefix(t.Op, "(_ zero_extend"):
		r = b.bound(t.Args[0])
	case strings.HasPrefix(t.Op, "(_ extract"):
		var hi, lo int
		fmt.Sscanf(t.Op, "(_ extract %d %d)", &hi, &lo)
		if lo == 0 {
			r = minB(b.bound(t.Args[0]), pow2(hi+1))
		}
	case t.Op == "bvadd":
		s := new(big.Int).Add(b.bound(t.Args[0]), b.bound(t.Args[1]))
		s.Sub(s, big.NewInt(1))
		r = minB(s, full)
	case t.Op == "ite":
		x, y := b.bound(t.Args[1]), b.bound(t.Args[2])
		if x.Cmp(y) > 0 {
			r = x
		} else {
			r = y
		}
	case t.Op == "bvand":
		r = minB(b.bound(t.Args[0]), b.bound(t.Args[1]))
	case t.Op == "bvlshr":
		if c, ok := bvLitBig(t.Args[1]); ok && c.IsInt64() && c.Int64() < int64(w) {
			x := new(big.Int).Sub(b.bound(t.Args[0]), big.NewInt(1))
			x.Rsh(x, uint(c.Int64()))
			r = x.Add(x, big.NewInt(1))
		}
	case t.Op == "bvurem":
		if c, ok := bvLitBig(t.Args[1]); ok && c.Sign() > 0 {
			r = minB(b.bound(t.Args[0]), c)
		}
	case t.Op == "bvmul":
		for k := 0; k < 2; k++ {
			if c, ok := bvLitBig(t.Args[k]); ok {
				x := new(big.Int).Sub(b.bound(t.Args[1-k]), big.NewInt(1))
				x.Mul(x, c)
				x.Add(x, big.NewInt(1))
				r = minB(x, full)
			}
		}
	}
	if r.Sign() <= 0 {
		r = big.NewInt(1)
	}
	b.bmemo[t] = r
	return r
}

func (b *iblaster) tr(t *Term) *Term {
	if r, ok := b.memo[t]; ok {
		return r
	}
	r := b.tr1(t)
	b.memo[t] = r
	return r
}

func (b *iblaster) args(t *Term) []*Term {
	out := make([]*Term, len(t.Args))
	for i, a := range t.Args {
		out[i] = b.tr(a)
	}
	return out
}

func (b *iblaster) tr1(t *Term) *Term {
	if !b.ok {
		return IntLit(0)
	}
	switch t.Op {
	case "const":
		if !hasBV(t.S) {
			return t
		}
		c := Const(t.Name+"$i", mapSort(t.S))
		if t.S.Kind == "BV" {
			if _, defined := b.defOf[t.Name]; !defined {
				b.rangeFact(c, t.S.W)
			}
		}
		return c
	case "lit":
		if t.S.Kind == "BV" {
			v, _ := bvLitBig(t)
			return IntBig(v)
		}
		return t
	}
	w := 0
	if t.S.Kind == "BV" {
		w = t.S.W
	}
	switch t.Op {
	case "not", "and", "or", "=>", "distinct":
		return mk(t.Op, BoolS, b.args(t)...)
	case "=":
		as := b.args(t)
		return Eq(as[0], as[1])
	case "ite":
		as := b.args(t)
		return Ite(as[0], as[1], as[2])
	case "select":
		as := b.args(t)
		r := Select(as[0], as[1])
		if t.S.Kind == "BV" {
			b.rangeFact(r, w)
		}
		return r
	case "store":
		as := b.args(t)
		return Store(as[0], as[1], as[2])
	case "bvadd":
		as := b.args(t)
		s := iadd(as[0], as[1])
		tot := new(big.Int).Add(b.bound(t.Args[0]), b.bound(t.Args[1]))
		tot.Sub(tot, big.NewInt(1))
		if tot.Cmp(pow2(w)) <= 0 {
			return s // cannot wrap
		}
		m := IntBig(pow2(w))
		return Ite(IntCmp(">=", s, m), isub(s, m), s)
	case "bvsub":
		as := b.args(t)
		d := isub(as[0], as[1])
		return Ite(IntCmp("<", d, IntLit(0)), iadd(d, IntBig(pow2(w))), d)
	case "bvneg":
		a := b.tr(t.Args[0])
		return Ite(Eq(a, IntLit(0)), IntLit(0), isub(IntBig(pow2(w)), a))
	case "bvnot":
		a := b.tr(t.Args[0])
		return isub(IntBig(new(big.Int).Sub(pow2(w), big.NewInt(1))), a)
	case "bvmul":
		for k := 0; k < 2; k++ {
			if c, ok := bvLitBig(t.Args[k]); ok {
				p := imulc(c, b.tr(t.Args[1-k]))
				if b.bound(t).Cmp(pow2(w)) < 0 {
					return p
				}
				return imod(p, pow2(w))
			}
		}
		return b.fail("bvmul of two non-constants")
	case "bvudiv", "bvurem":
		if c, ok := bvLitBig(t.Args[1]); ok && c.Sign() > 0 {
			if t.Op == "bvudiv" {
				return idiv(b.tr(t.Args[0]), c)
			}
			return imod(b.tr(t.Args[0]), c)
		}
		return b.fail(t.Op + " by a non-constant")
	case "bvand", "bvor", "bvxor":
		for k := 0; k < 2; k++ {
			if c, ok := bvLitBig(t.Args[k]); ok {
				a := b.tr(t.Args[1-k])
				am, ok := andMask(a, c, w)
				if !ok {
					return b.fail(t.Op + " with a non-contiguous constant mask")
				}
				switch t.Op {
				case "bvand":
					return am
				case "bvor":
					return isub(iadd(a, IntBig(c)), am) // a|m = a + m - (a&m)
				default:
					return isub(iadd(a, IntBig(c)), imulc(big.NewInt(2), am)) // a^m = a + m - 2(a&m)
				}
			}
		}
		return b.fail(t.Op + " of two non-constants")
	case "bvshl", "bvlshr", "bvashr":
		c, ok := bvLitBig(t.Args[1])
		if !ok {
			return b.fail(t.Op + " by a non-constant")
		}
		a := b.tr(t.Args[0])
		if c.Cmp(big.NewInt(int64(w))) >= 0 {
			if t.Op == "bvashr" {
				return Ite(IntCmp(">=", a, IntBig(pow2(w-1))), IntBig(new(big.Int).Sub(pow2(w), big.NewInt(1))), IntLit(0))
			}
			return IntLit(0)
		}
		k := int(c.Int64())
		switch t.Op {
		case "bvshl":
			p := imulc(pow2(k), a)
			x := new(big.Int).Sub(b.bound(t.Args[0]), big.NewInt(1))
			x.Lsh(x, uint(k))
			if x.Cmp(pow2(w)) < 0 {
				return p
			}
			return imod(p, pow2(w))
		case "bvlshr":
			return idiv(a, pow2(k))
		default:
			// arithmetic shift: floor(signed / 2^k) mod 2^w
			sv := signedOf(a, w)
			q := idiv(sv, pow2(k)) // SMT-LIB div rounds toward -inf for positive divisors
			return Ite(IntCmp("<", q, IntLit(0)), iadd(q, IntBig(pow2(w))), q)
		}
	case "bvult", "bvule", "bvugt", "bvuge":
		as := b.args(t)
		op := map[string]string{"bvult": "<", "bvule": "<=", "bvugt": ">", "bvuge": ">="}[t.Op]
		return IntCmp(op, as[0], as[1])
	case "bvslt", "bvsle", "bvsgt", "bvsge":
		as := b.args(t)
		wa := t.Args[0].S.W
		op := map[string]string{"bvslt": "<", "bvsle": "<=", "bvsgt": ">", "bvsge": ">="}[t.Op]
		return IntCmp(op, signedOf(as[0], wa), signedOf(as[1], wa))
	case "bv2nat":
		return b.tr(t.Args[0])
	case "to_real", "to_int":
		return mk(t.Op, t.S, b.args(t)...)
	case "+", "-", "*", "/", "div", "mod":
		return mk(t.Op, t.S, b.args(t)...)
	case "<", "<=", ">", ">=":
		return mk(t.Op, BoolS, b.args(t)...)
	}
	if strings.HasPrefix(t.Op, "(_ extract") {
		var hi, lo int
		fmt.Sscanf(t.Op, "(_ extract %d %d)", &hi, &lo)
		a := b.tr(t.Args[0])
		if lo > 0 {
			a = idiv(a, pow2(lo))
		}
		if hi < t.Args[0].S.W-1 && !(lo == 0 && b.bound(t.Args[0]).Cmp(pow2(hi+1)) <= 0) {
			a = imod(a, pow2(hi-lo+1))
		}
		return a
	}
	if strings.HasPrefix(t.Op, "(_ zero_extend") {
		return b.tr(t.Args[0])
	}
	if strings.HasPrefix(t.Op, "(_ sign_extend") {
		var n int
		fmt.Sscanf(t.Op, "(_ sign_extend %d)", &n)
		wa := t.Args[0].S.W
		sv := signedOf(b.tr(t.Args[0]), wa)
		return Ite(IntCmp("<", sv, IntLit(0)), iadd(sv, IntBig(pow2(wa+n))), sv)
	}
	if strings.HasPrefix(t.Op, "(as const") {
		ms := mapSort(t.S)
		return mk("(as const "+ms.String()+")", ms, b.tr(t.Args[0]))
	}
	// uninterpreted function application
	as := b.args(t)
	if hasBV(t.S) {
		r := mk(t.Op+"$i", mapSort(t.S), as...)
		if t.S.Kind == "BV" {
			b.rangeFact(r, t.S.W)
		}
		return r
	}
	bvArg := false
	for _, a := range t.Args {
		if hasBV(a.S) {
			bvArg = true
		}
	}
	if bvArg {
		return mk(t.Op+"$i", t.S, as...)
	}
	return mk(t.Op, t.S, as...)
}

// IntBlast translates the assertions; ok=false if some operation has no exact translation.
func IntBlast(asserts []*Term, defs map[string]*Term) ([]*Term, bool, string) {
	b := &iblaster{memo: map[*Term]*Term{}, sideK: map[*Term]bool{}, ok: true, defOf: defs, bmemo: map[*Term]*big.Int{}}
	out := make([]*Term, 0, len(asserts))
	for _, a := range asserts {
		out = append(out, b.tr(a))
		if !b.ok {
			return nil, false, b.why
		}
	}
	out = append(out, b.side...)
	return out, true, ""
}
