package govc

import (
	"fmt"
	"go/ast"
	"go/parser"
	"os"
	"strconv"
	"strings"
)

// Clause is one contract clause.
type Clause struct {
	Kind   string // requires, ensures, modifies, invariant, unroll, cut, decreases, assert
	Text   string
	Expr   ast.Expr
	Props  []string
	Loop   int    // loop ordinal (invariant/unroll/decreases)
	N      int    // unroll count
	Block  string // cut: block comment, e.g. "if.done"
	Ord    int    // cut: ordinal of such block
	Line   int
	Name   string     // optional label
	Lhs    ast.Expr   // ghostset: target gf_x(obj)
	Params string     // ghostdef: parameter type
	Frames []ast.Expr // cut: slice ranges that bound what the section wrote
}

// Case is one contract of a function (a function may have several).
type Case struct {
	Name    string
	Props   []string
	Clauses []*Clause
}

// FuncSpec is the contract of one function.
type FuncSpec struct {
	Name    string // as written: (*pbRequest).MarshalTo, code.SizeofVarint
	Props   []string
	Shared  []*Clause
	Cases   []*Case
	Inline  bool
	Trusted bool // contract assumed; body not verified
	Extern  bool
	Iface   bool
	Line    int
	Params  []string // for extern/iface: parameter names (optional)
}

// PureFunc is a spec function (macro).
type PureFunc struct {
	Name   string
	Params []PureParam
	ResTy  string
	Body   ast.Expr
	Text   string
}

type PureParam struct{ Name, Ty string }

// LockInv is a lock invariant.
type LockInv struct {
	Type, Mutex string
	Guards      []string
	Invs        []*Clause
	Assumed     []*Clause // assumed at Lock, never asserted (recorded as assumptions)
	Followers   map[string][]string
	Tokens      []string // ghost token fields shared under this lock (value 2 = held by the current thread, stable)
	Stable      []*Clause
	Props       []string
}

// Spec is the parsed contract file.
type Spec struct {
	Funcs       map[string]*FuncSpec
	Order       []string
	Pures       map[string]*PureFunc
	Locks       []*LockInv
	Fields      map[string]string   // "Type.field" -> class (immutable, atomic, config, racy, monotone)
	TokenTables map[string]string   // "Type.field" (a map field) -> token ghost field
	TokenSlots  map[string]string   // "Type.field" -> ghost key field (optional)
	FieldProps  map[string][]string // "Type.field" -> property tags of the obligations its class generates
	Axioms      []*Clause           // assumed facts about package-level state (listed as assumptions)
	Observes    map[string]string   // "Type.field" -> ghost flag set when the field is read as true
	Lemmas      []*FuncSpec
	File        string
	Trusted     []string
}

var clauseKw = map[string]bool{
	"pure": true, "func": true, "extern": true, "iface": true, "lockinv": true, "property": true,
	"case": true, "requires": true, "ensures": true, "modifies": true, "loop": true, "cut": true,
	"inline": true, "trusted": true, "field": true, "lemma": true, "guards": true, "invariant": true, "observe": true, "ghostset": true, "axiom": true, "ghostdef": true, "assumed": true, "atcall": true, "tokens": true, "consumes": true, "ghostat": true, "tokentable": true, "opaque": true, "nocall": true, "induct": true,
	"stable": true, "assert": true, "params": true, "ghost": true,
}

// ParseSpec reads the contract file (comment lines starting with //@).
func ParseSpec(path string) (*Spec, error) {
	data, err := os.ReadFile(path)
	if err != nil {
		return nil, err
	}
	sp := &Spec{Funcs: map[string]*FuncSpec{}, Pures: map[string]*PureFunc{}, Fields: map[string]string{}, Observes: map[string]string{}, File: path}
	type rawClause struct {
		text string
		line int
	}
	var raws []rawClause
	for i, ln := range strings.Split(string(data), "\n") {
		t := strings.TrimSpace(ln)
		if !strings.HasPrefix(t, "//@") {
			continue
		}
		t = strings.TrimSpace(t[3:])
		if t == "" {
			continue
		}
		// strip trailing comment
		if k := strings.Index(t, " // "); k >= 0 {
			t = strings.TrimSpace(t[:k])
		}
		if strings.HasPrefix(t, "//") {
			continue
		}
		first := t
		if k := strings.IndexAny(t, " \t:"); k >= 0 {
			first = t[:k]
		}
		if clauseKw[first] || len(raws) == 0 {
			raws = append(raws, rawClause{t, i + 1})
		} else {
			raws[len(raws)-1].text += " " + t
		}
	}
	var cur *FuncSpec
	var curCase *Case
	var curLock *LockInv
	addClause := func(c *Clause) {
		if cur == nil {
			return
		}
		if curCase != nil {
			curCase.Clauses = append(curCase.Clauses, c)
		} else {
			cur.Shared = append(cur.Shared, c)
		}
	}
	parseExpr := func(s string, line int) (ast.Expr, error) {
		e, err := parser.ParseExpr(s)
		if err != nil {
			return nil, fmt.Errorf("%s:%d: %v in %q", path, line, err, s)
		}
		return e, nil
	}
	for _, rc := range raws {
		t := rc.text
		kw := t
		rest := ""
		if k := strings.IndexAny(t, " \t"); k >= 0 {
			kw, rest = t[:k], strings.TrimSpace(t[k+1:])
		}
		kw = strings.TrimSuffix(kw, ":")
		switch kw {
		case "pure":
			// pure name(p1 T1, p2 T2) T = expr
			eq := strings.Index(rest, "=")
			// find the '=' that is not part of '==' etc: first " = "
			if k := strings.Index(rest, " = "); k >= 0 {
				eq = k + 1
			}
			head, body := strings.TrimSpace(rest[:eq]), strings.TrimSpace(rest[eq+1:])
			lp, rp := strings.Index(head, "("), strings.LastIndex(head, ")")
			pf := &PureFunc{Name: strings.TrimSpace(head[:lp]), ResTy: strings.TrimSpace(head[rp+1:]), Text: body}
			var pend []string
			for _, p := range strings.Split(head[lp+1:rp], ",") {
				p = strings.TrimSpace(p)
				if p == "" {
					continue
				}
				fs := strings.Fields(p)
				if len(fs) == 1 {
					pend = append(pend, fs[0])
					continue
				}
				for _, n := range pend {
					pf.Params = append(pf.Params, PureParam{n, fs[1]})
				}
				pend = nil
				pf.Params = append(pf.Params, PureParam{fs[0], fs[1]})
			}
			e, err := parseExpr(body, rc.line)
			if err != nil {
				return nil, err
			}
			pf.Body = e
			sp.Pures[pf.Name] = pf
			cur, curCase, curLock = nil, nil, nil
		case "func", "extern", "iface", "lemma":
			cur = &FuncSpec{Name: rest, Line: rc.line, Extern: kw == "extern", Iface: kw == "iface"}
			if kw == "extern" || kw == "iface" {
				cur.Trusted = true
			}
			curCase, curLock = nil, nil
			if kw == "lemma" {
				sp.Lemmas = append(sp.Lemmas, cur)
			} else {
				if _, dup := sp.Funcs[rest]; dup {
					return nil, fmt.Errorf("%s:%d: duplicate contract for %s", path, rc.line, rest)
				}
				sp.Funcs[rest] = cur
				sp.Order = append(sp.Order, rest)
			}
		case "params":
			if cur != nil {
				for _, p := range strings.Split(rest, ",") {
					cur.Params = append(cur.Params, strings.TrimSpace(p))
				}
			}
		case "lockinv":
			parts := strings.SplitN(rest, ".", 2)
			curLock = &LockInv{Type: parts[0], Mutex: parts[1]}
			sp.Locks = append(sp.Locks, curLock)
			cur, curCase = nil, nil
		case "guards":
			if curLock != nil {
				for _, g := range strings.Split(rest, ",") {
					curLock.Guards = append(curLock.Guards, strings.TrimSpace(g))
				}
			}
		case "axiom":
			e, err := parseExpr(rest, rc.line)
			if err != nil {
				return nil, err
			}
			sp.Axioms = append(sp.Axioms, &Clause{Kind: "axiom", Text: rest, Expr: e, Line: rc.line})
			cur, curCase, curLock = nil, nil, nil
		case "observe":
			// observe Type.field as flag
			fs := strings.Fields(rest)
			if len(fs) == 3 && fs[1] == "as" {
				sp.Observes[fs[0]] = fs[2]
			}
		case "atcall":
			// atcall <callee>#<n>: <expr>   (assertion checked right before that call site)
			k := strings.Index(rest, ": ")
			if k < 0 {
				return nil, fmt.Errorf("%s:%d: atcall callee#n: expr expected", path, rc.line)
			}
			head := strings.TrimSpace(rest[:k])
			ord := 1
			if h := strings.LastIndex(head, "#"); h > 0 {
				ord, _ = strconv.Atoi(head[h+1:])
				head = head[:h]
			}
			props, body := splitProps(strings.TrimSpace(rest[k+2:]))
			e, err := parseExpr(body, rc.line)
			if err != nil {
				return nil, err
			}
			addClause(&Clause{Kind: "atcall", Block: head, Ord: ord, Text: body, Expr: e, Line: rc.line, Props: props})
		case "ghostat":
			// ghostat <callee>#<n>: gf_name(obj) = expr   (ghost update right before that call site)
			k := strings.Index(rest, ": ")
			if k < 0 {
				return nil, fmt.Errorf("%s:%d: ghostat callee#n: target = expr expected", path, rc.line)
			}
			head := strings.TrimSpace(rest[:k])
			ord := 1
			if h := strings.LastIndex(head, "#"); h > 0 {
				ord, _ = strconv.Atoi(head[h+1:])
				head = head[:h]
			}
			body := strings.TrimSpace(rest[k+2:])
			eq := strings.Index(body, " = ")
			if eq < 0 {
				return nil, fmt.Errorf("%s:%d: ghostat needs target = expr", path, rc.line)
			}
			le, err := parseExpr(strings.TrimSpace(body[:eq]), rc.line)
			if err != nil {
				return nil, err
			}
			re, err := parseExpr(strings.TrimSpace(body[eq+3:]), rc.line)
			if err != nil {
				return nil, err
			}
			addClause(&Clause{Kind: "ghostat", Block: head, Ord: ord, Text: body, Expr: re, Lhs: le, Line: rc.line})
		case "tokentable":
			// tokentable Type.field tok : storing a value into this map field hands its token to the table
			if k := strings.LastIndex(rest, "[C"); k > 0 && strings.HasSuffix(strings.TrimSpace(rest), "]") {
				r2 := strings.TrimSpace(rest)
				if sp.FieldProps == nil {
					sp.FieldProps = map[string][]string{}
				}
				if f0 := strings.Fields(rest); len(f0) > 0 {
					sp.FieldProps[f0[0]] = strings.Fields(r2[k+1 : len(r2)-1])
				}
				rest = strings.TrimSpace(r2[:k])
			}
			fs := strings.Fields(rest)
			if len(fs) == 2 || len(fs) == 3 {
				if sp.TokenTables == nil {
					sp.TokenTables = map[string]string{}
					sp.TokenSlots = map[string]string{}
				}
				sp.TokenTables[fs[0]] = fs[1]
				if len(fs) == 3 {
					// ghost BV field recording the key a table-owned value is stored under (gv_<slot>)
					sp.TokenSlots[fs[0]] = fs[2]
				}
			}
		case "induct":
			// induct [props] forall(j, lo, hi, body) by hint; hint   (lemma proved by strong induction on j in the
			// return state, then assumed for the postconditions; the hints are the instances of the hypothesis)
			props, body := splitProps(rest)
			var hints []ast.Expr
			if k := strings.LastIndex(body, " by "); k > 0 {
				for _, h := range strings.Split(body[k+4:], ";") {
					he, err := parseExpr(strings.TrimSpace(h), rc.line)
					if err != nil {
						return nil, err
					}
					hints = append(hints, he)
				}
				body = strings.TrimSpace(body[:k])
			}
			e, err := parseExpr(body, rc.line)
			if err != nil {
				return nil, err
			}
			addClause(&Clause{Kind: "induct", Text: rest, Expr: e, Frames: hints, Line: rc.line, Props: props})
		case "nocall":
			// nocall f: the function under verification contains no call site of f (structural obligation)
			props, body := splitProps(rest)
			addClause(&Clause{Kind: "nocall", Text: strings.TrimSpace(body), Line: rc.line, Props: props})
		case "opaque":
			// opaque f, g: inside this function's verification the pure functions f and g are uninterpreted
			addClause(&Clause{Kind: "opaque", Text: rest, Line: rc.line})
		case "consumes":
			e, err := parseExpr(rest, rc.line)
			if err != nil {
				return nil, err
			}
			addClause(&Clause{Kind: "consumes", Text: rest, Expr: e, Line: rc.line})
		case "tokens":
			if curLock != nil {
				for _, g := range strings.Split(rest, ",") {
					// `tok with gv_slot gb_acked`: ghost fields that only the holder of an object's token may change
					fs := strings.Fields(g)
					if len(fs) == 0 {
						continue
					}
					curLock.Tokens = append(curLock.Tokens, fs[0])
					if len(fs) > 2 && fs[1] == "with" {
						if curLock.Followers == nil {
							curLock.Followers = map[string][]string{}
						}
						curLock.Followers[fs[0]] = fs[2:]
					}
				}
			}
		case "ghostdef":
			// ghostdef gb_name(o *T) = expr
			k := strings.Index(rest, " = ")
			lp, rp := strings.Index(rest, "("), strings.Index(rest, ")")
			if k < 0 || lp < 0 || rp < lp || rp > k {
				return nil, fmt.Errorf("%s:%d: ghostdef gb_name(o *T) = expr expected", path, rc.line)
			}
			pf := strings.Fields(rest[lp+1 : rp])
			if len(pf) != 2 {
				return nil, fmt.Errorf("%s:%d: ghostdef parameter must be 'name *Type'", path, rc.line)
			}
			re, err := parseExpr(strings.TrimSpace(rest[k+3:]), rc.line)
			if err != nil {
				return nil, err
			}
			addClause(&Clause{Kind: "ghostdef", Text: rest, Expr: re, Name: strings.TrimSpace(rest[:lp]), Block: pf[0], Params: pf[1], Line: rc.line})
		case "ghostset":
			// ghostset gf_name(obj) = expr
			k := strings.Index(rest, " = ")
			if k < 0 {
				return nil, fmt.Errorf("%s:%d: ghostset needs lhs = rhs", path, rc.line)
			}
			le, err := parseExpr(strings.TrimSpace(rest[:k]), rc.line)
			if err != nil {
				return nil, err
			}
			re, err := parseExpr(strings.TrimSpace(rest[k+3:]), rc.line)
			if err != nil {
				return nil, err
			}
			addClause(&Clause{Kind: "ghostset", Text: rest, Expr: re, Lhs: le, Line: rc.line})
		case "field":
			// field Type.f: class
			parts := strings.SplitN(rest, ":", 2)
			if len(parts) == 2 {
				cls := strings.TrimSpace(parts[1])
				// optional trailing property tags: `field T.f: owned tok [C02 C19]`
				if k := strings.LastIndex(cls, "[C"); k > 0 && strings.HasSuffix(cls, "]") {
					if sp.FieldProps == nil {
						sp.FieldProps = map[string][]string{}
					}
					sp.FieldProps[strings.TrimSpace(parts[0])] = strings.Fields(cls[k+1 : len(cls)-1])
					cls = strings.TrimSpace(cls[:k])
				}
				sp.Fields[strings.TrimSpace(parts[0])] = cls
			}
		case "property":
			ps := strings.Fields(rest)
			if curLock != nil {
				curLock.Props = ps
			} else if curCase != nil {
				curCase.Props = ps
			} else if cur != nil {
				cur.Props = ps
			}
		case "case":
			if cur != nil {
				curCase = &Case{Name: strings.TrimSuffix(rest, ":")}
				cur.Cases = append(cur.Cases, curCase)
			}
		case "inline":
			if cur != nil {
				cur.Inline = true
			}
		case "trusted":
			if cur != nil {
				cur.Trusted = true
				sp.Trusted = append(sp.Trusted, cur.Name)
			}
		case "requires", "ensures", "assert", "decreases":
			props, body := splitProps(rest)
			e, err := parseExpr(body, rc.line)
			if err != nil {
				return nil, err
			}
			addClause(&Clause{Kind: kw, Text: body, Expr: e, Line: rc.line, Props: props})
		case "assumed":
			e, err := parseExpr(rest, rc.line)
			if err != nil {
				return nil, err
			}
			if curLock != nil {
				curLock.Assumed = append(curLock.Assumed, &Clause{Kind: "assumed", Text: rest, Expr: e, Line: rc.line})
			}
		case "invariant", "stable":
			props, body := splitProps(rest)
			e, err := parseExpr(body, rc.line)
			if err != nil {
				return nil, err
			}
			c := &Clause{Kind: kw, Text: body, Expr: e, Line: rc.line, Props: props}
			if curLock != nil {
				if kw == "invariant" {
					curLock.Invs = append(curLock.Invs, c)
				} else {
					curLock.Stable = append(curLock.Stable, c)
				}
			}
		case "modifies":
			for _, m := range splitTop(rest, ',') {
				m = strings.TrimSpace(m)
				e, err := parseExpr(m, rc.line)
				if err != nil {
					return nil, err
				}
				addClause(&Clause{Kind: "modifies", Text: m, Expr: e, Line: rc.line})
			}
		case "loop":
			// loop N: unroll K | loop N: invariant e | loop N: decreases e
			parts := strings.SplitN(rest, ":", 2)
			if len(parts) != 2 {
				return nil, fmt.Errorf("%s:%d: bad loop clause", path, rc.line)
			}
			body := strings.TrimSpace(parts[1])
			sub := body
			arg := ""
			if k := strings.IndexAny(body, " \t"); k >= 0 {
				sub, arg = body[:k], strings.TrimSpace(body[k+1:])
			}
			for _, ls := range strings.Split(parts[0], ",") {
				n, err := strconv.Atoi(strings.TrimSpace(ls))
				if err != nil {
					return nil, fmt.Errorf("%s:%d: bad loop ordinal", path, rc.line)
				}
				switch sub {
				case "unroll":
					k, _ := strconv.Atoi(arg)
					addClause(&Clause{Kind: "unroll", Loop: n, N: k, Line: rc.line})
				case "invariant", "decreases":
					props, ebody := splitProps(arg)
					e, err := parseExpr(ebody, rc.line)
					if err != nil {
						return nil, err
					}
					addClause(&Clause{Kind: sub, Loop: n, Text: ebody, Expr: e, Line: rc.line, Props: props})
				default:
					return nil, fmt.Errorf("%s:%d: bad loop clause %q", path, rc.line, sub)
				}
			}
		case "cut":
			// cut if.done#2: expr
			parts := strings.SplitN(rest, ":", 2)
			if len(parts) != 2 {
				return nil, fmt.Errorf("%s:%d: bad cut clause", path, rc.line)
			}
			// the head may carry "frame <targets>"; the first ':' outside brackets ends the head
			head, body := rest, ""
			depth := 0
			for i := 0; i < len(rest); i++ {
				switch rest[i] {
				case '[', '(':
					depth++
				case ']', ')':
					depth--
				case ':':
					if depth == 0 && body == "" {
						head, body = rest[:i], strings.TrimSpace(rest[i+1:])
						i = len(rest)
					}
				}
			}
			_ = parts
			var frames []ast.Expr
			if k := strings.Index(head, " frame "); k >= 0 {
				for _, ft := range splitTop(head[k+7:], ',') {
					fe, err := parseExpr(strings.TrimSpace(ft), rc.line)
					if err != nil {
						return nil, err
					}
					frames = append(frames, fe)
				}
				head = head[:k]
			}
			bo := strings.SplitN(strings.TrimSpace(head), "#", 2)
			ord := 1
			if len(bo) == 2 {
				ord, _ = strconv.Atoi(bo[1])
			}
			e, err := parseExpr(body, rc.line)
			if err != nil {
				return nil, err
			}
			addClause(&Clause{Kind: "cut", Block: bo[0], Ord: ord, Text: body, Expr: e, Line: rc.line, Frames: frames})
		default:
			return nil, fmt.Errorf("%s:%d: unknown clause %q", path, rc.line, kw)
		}
	}
	return sp, nil
}

// splitProps strips a leading "[C01 C02]" tag list.
func splitProps(s string) ([]string, string) {
	s = strings.TrimSpace(s)
	if strings.HasPrefix(s, "[C") {
		if k := strings.Index(s, "]"); k > 0 {
			return strings.Fields(s[1:k]), strings.TrimSpace(s[k+1:])
		}
	}
	return nil, s
}

func splitTop(s string, sep byte) []string {
	var out []string
	depth := 0
	start := 0
	for i := 0; i < len(s); i++ {
		switch s[i] {
		case '(', '[', '{':
			depth++
		case ')', ']', '}':
			depth--
		default:
			if s[i] == sep && depth == 0 {
				out = append(out, s[start:i])
				start = i + 1
			}
		}
	}
	out = append(out, s[start:])
	return out
}

// EffectiveCases returns the cases of a function spec (a single unnamed case if none declared).
func (fs *FuncSpec) EffectiveCases() []*Case {
	if len(fs.Cases) == 0 {
		return []*Case{{Name: "", Props: fs.Props, Clauses: fs.Shared}}
	}
	var out []*Case
	for _, c := range fs.Cases {
		cc := &Case{Name: c.Name, Props: c.Props}
		if len(cc.Props) == 0 {
			cc.Props = fs.Props
		}
		cc.Clauses = append(append([]*Clause{}, fs.Shared...), c.Clauses...)
		out = append(out, cc)
	}
	return out
}

// CallCase is the case callers rely on: the first case (by convention the general one).
func (fs *FuncSpec) CallCase() *Case {
	cs := fs.EffectiveCases()
	for _, c := range cs {
		if c.Name == "call" {
			return c
		}
	}
	return cs[0]
}
