package govc

import (
	"fmt"
	"go/types"
	"strings"

	"golang.org/x/tools/go/ssa"
)

// Value is the Go-side representation of a Go value during symbolic execution.
type Value interface{}

// Scalar: integers (BV), bool (Bool), float (Real), pointers/maps/chans/funcs (Int "Ref").
type Scalar struct {
	T  *Term
	Ty types.Type
}

// SliceV is a slice or (Str) a string: a window into a byte/ref array of the heap.
type SliceV struct {
	Arr, Off, Len, Cap *Term // Arr: Int ref of backing array; Off/Len/Cap: BV64
	Ty                 types.Type
	Str                bool
}

// IfaceV is an interface value: type tag (Int, 0 = nil interface) and payload ref (Int).
type IfaceV struct {
	Tag, Val *Term
	Ty       types.Type
	Box      Value // statically known payload (when built by MakeInterface in this activation)
}

// StructV is a struct held by value.
type StructV struct {
	F  []Value
	Ty types.Type
}

// LocV is a pointer to something that is not a whole heap struct object:
// a field of a heap object, an element of an array, or a local cell.
type LocV struct {
	Kind  string // "field", "elem", "cell", "global"
	Obj   *Term  // field: object ref; elem: array ref
	ST    *types.Struct
	Path  []int      // field index path (field kind)
	Idx   *Term      // elem: absolute index (BV64)
	Cell  string     // cell: state key
	Ty    types.Type // pointer type
	Outer string     // heap component prefix for nested fields
}

// TupleV is a multi-value result.
type TupleV []Value

// ClosureV is a function value known statically.
type ClosureV struct {
	Fn       *ssa.Function
	Bindings []Value
	Ref      *Term
	Ty       types.Type
}

// UnknownV is a value the engine does not model (havocked on use).
type UnknownV struct{ Ty types.Type }

const (
	shScalar = iota
	shSlice
	shString
	shIface
	shStruct
	shOpaque
)

// opaqueStructs are named struct types modelled as a single scalar or as nothing.
var opaqueStructs = map[string]*Sort{
	"time.Time":                    BV(64), // nanoseconds
	"github.com/hslam/funcs.Value": IntS,
	"reflect.Value":                IntS,
	"sync.Mutex":                   nil,
	"sync.RWMutex":                 nil,
	"sync.Cond":                    nil,
	"sync.Once":                    nil,
	"sync.WaitGroup":               nil,
	"sync.Pool":                    nil,
	"sync.Map":                     nil,
	"sync/atomic.Value":            nil,
	"sync.noCopy":                  nil,
}

func typeKey(t types.Type) string {
	if n, ok := t.(*types.Named); ok {
		o := n.Obj()
		if o.Pkg() != nil {
			return o.Pkg().Path() + "." + o.Name()
		}
		return o.Name()
	}
	return t.String()
}

// isOpaque reports whether t is an opaque named struct and the sort it maps to (nil = no data).
func isOpaque(t types.Type) (bool, *Sort) {
	if s, ok := opaqueStructs[typeKey(t)]; ok {
		return true, s
	}
	return false, nil
}

func sortOfBasic(b *types.Basic) *Sort {
	switch b.Kind() {
	case types.Bool, types.UntypedBool:
		return BoolS
	case types.Int8, types.Uint8:
		return BV(8)
	case types.Int16, types.Uint16:
		return BV(16)
	case types.Int32, types.Uint32, types.UntypedRune:
		return BV(32)
	case types.Int, types.Uint, types.Int64, types.Uint64, types.Uintptr, types.UntypedInt:
		return BV(64)
	case types.Float32, types.Float64, types.UntypedFloat:
		return RealS
	case types.UnsafePointer:
		return IntS
	}
	return nil
}

func isSigned(t types.Type) bool {
	if b, ok := t.Underlying().(*types.Basic); ok {
		return b.Info()&types.IsInteger != 0 && b.Info()&types.IsUnsigned == 0
	}
	return false
}

func isString(t types.Type) bool {
	b, ok := t.Underlying().(*types.Basic)
	return ok && b.Info()&types.IsString != 0
}

// scalarSort returns the SMT sort for scalar-like Go types, or nil.
func scalarSort(t types.Type) *Sort {
	if ok, s := isOpaque(t); ok {
		return s
	}
	switch u := t.Underlying().(type) {
	case *types.Basic:
		if u.Info()&types.IsString != 0 {
			return nil
		}
		return sortOfBasic(u)
	case *types.Pointer, *types.Map, *types.Chan, *types.Signature:
		return IntS
	}
	return nil
}

func typeName(t types.Type) string {
	if b, ok := t.(*types.Basic); ok && b.Kind() < types.UntypedBool {
		return types.Typ[b.Kind()].Name() // byte -> uint8, rune -> int32
	}
	s := types.TypeString(t, func(p *types.Package) string {
		if p.Path() == "github.com/hslam/rpc" {
			return ""
		}
		return p.Name()
	})
	return s
}

// heapKey returns the heap component base name for field path of struct type owner.
func heapKey(owner types.Type, path string) string {
	return typeName(owner) + "." + path
}

func (v Scalar) String() string { return v.T.String() }
func (v SliceV) String() string { return fmt.Sprintf("slice(%s,%s,%s)", v.Arr, v.Off, v.Len) }
func (v IfaceV) String() string { return fmt.Sprintf("iface(%s,%s)", v.Tag, v.Val) }
func (v LocV) String() string {
	return fmt.Sprintf("loc(%s %v %v %v %s)", v.Kind, v.Obj, v.Path, v.Idx, v.Cell)
}

func fieldPathName(st *types.Struct, path []int) string {
	var parts []string
	cur := st
	for i, p := range path {
		f := cur.Field(p)
		parts = append(parts, f.Name())
		if i < len(path)-1 {
			cur = f.Type().Underlying().(*types.Struct)
		}
	}
	return strings.Join(parts, ".")
}
