#!/usr/bin/env python3
"""Regenerates /verif/MANIFEST.json from the table below (claimed checks) and properties.jsonl."""
import json
props=[json.loads(l) for l in open('/verif/properties.jsonl')]
TRUST = ("Trusted base: the VC generator govc itself (SSA semantics, weakest-precondition rules, engine-side quantifier "
         "instantiation, its own integer translation), golang.org/x/tools/go/ssa, z3 4.8.12 and z3 5.1.0 (z3's int-blasting "
         "mode only proposes models which a trusted configuration re-checks), the Go compiler agreeing with the Go spec. "
         "Integers are exact bit-vectors; slice off/len/cap are 48-bit (allocations of 2^47+ elements assumed to fail). ")
claimed = {
 "C07": dict(
   text="Unbounded deductive proof: every header encoder (pb request/response MarshalTo/Marshal/Size, code request/response Marshal), the varint "
        "primitives of hslam/code (verified from the module source), checkBuffer and the upgrade byte meet a wire-format spec function written "
        "from the documented formats, for every field value, every length up to 2^47 and every capacity/content of the scratch buffer; varint loops are "
        "unrolled to the operand width (10) with an unwinding assertion, which is complete. The default-header write paths (clientCodec.WriteRequest, serverCodec.WriteResponse) are proved to emit exactly that format for the request/response fields and to grow the scratch buffer on demand. Decoders: the hslam/code primitives DecodeVarint/DecodeBytes/DecodeString are proved to invert the encode-side spec function (for every x: if the buffer holds the documented varint of x, the decoder returns x and consumes vsize(x) bytes; a length-prefixed field is returned as exactly the n bytes behind its prefix), and the real (*request).Unmarshal and (*response).Unmarshal (code format; one section cut per field) are proved, for every frame, to return exactly the fields the decode-side format describes and to accept every frame whose fields fit (varintSize/fieldSize decide exactly that). The last step of decode(encode(x)) == x - substituting the encoder's offsets into the decoder's - is a paper composition of these machine-checked contracts; it, the two protobuf decoders (functionally) and the json header are exercised by a bounded stand-in (labelled bounded in the evidence, see level_note).",
   note=TRUST+"encoding/json is trusted (only struct tags are checked); all four decoders are proved for safety and for 'accepted fields lie inside the frame' (C08); the two code-format decoders also functionally (format cases, see above); functional cases for the two protobuf decoders (a tag-dispatch loop; unrolled to the field count under a canonical-frame precondition) were written and discharged when run alone, but needed 20-240 s per obligation under the check driver and were withdrawn rather than kept unstable; decode(encode(x)) == x end to end is exercised by the bounded stand-in bounded/header_roundtrip_test.go (all four header paths, varint-boundary sequence numbers and lengths up to 16384, dirty buffers) and is not counted among the discharged obligations; "
        "preconditions of the encoders (scratch buffer does not alias the fields) are checked at their in-repo call sites only where those are under contract.",
   design="5/C07", technique="contract-based deductive verification: generated WP obligations over go/ssa, discharged by z3"),

 "C13": dict(
   text="Deductive proof of the pool-size lock invariant of Transport.connsMu (for every address: active <= MaxConnsPerHost and idle <= MaxConnsPerHost - active; idle queue "
        "length <= capacity <= MaxIdleConnsPerHost; list and queue entries belong to their key) at every Unlock of getConn (all nine return paths, including the once.Do "
        "normalisation of the limits) for all interleavings (monitor rule: guarded state is havocked at Lock and only the invariant is assumed), all limits and all addresses.",
   note=TRUST+"the invariant is proved at every Unlock of getConn, run, CloseIdleConnections and Close (and for newPersistConn, conns.Cursor, conns.Delete, newConnQueue); "
        "connQueue (Enqueue/Dequeue/Rear) is an abstract data type with assumed (trusted) contracts; counts pool membership, not kernel sockets; exported limit fields are assumed not to be written after first use.",
   design="5/C13", technique="contract-based deductive verification: lock invariant (Owicki-Gries monitor rule) as generated obligations at every Unlock, z3"),
 "C14": dict(
   text="Deductive proof that getConn returns only a connection whose ghost dial address equals the requested address and which was observed alive under its mutex during the call "
        "(or freshly dialed), that newPersistConn reports ErrDial on every dial failure, and that each Transport call form issues at most one call, on exactly the connection "
        "returned for that address, and marks and closes it when the call reports ErrShutdown; the keep-alive loop parks a connection only in the idle queue of its own address (precondition of Enqueue at both sites of run). The genuine defect found by the aliveSeen postcondition (second idle path) is repaired by a fix: commit.",
   note=TRUST+"Conn.Call/Go/... carry a ghost call counter and are verified under C02; all six Transport call forms are under contract; the history claim 'at most one failure per pooled connection' is not decided.",
   design="5/C14", technique="contract-based deductive verification with ghost address/observation state, z3"),
 "C16": dict(
   text="Deductive proof of the Client lock invariant (every element of the live list and of the heap array is a value of the current target map under its own address; map keys are "
        "non-empty) at every Unlock of Update, check, wait, Close, director and detect, that schedule returns only live targets, and that each of the six call forms passes exactly the "
        "routed address (Director result or scheduled target) to the transport, at most once.",
   note=TRUST+"Director hook and RoundTripper are interface/dynamic contracts (assumed); target.alive is racy by design and read as is; NewClient and run are not under contract.",
   design="5/C16", technique="contract-based deductive verification: lock invariant + ghost routing record, z3"),
 "C17": dict(
   text="Deductive proof of schedule's postconditions (round-robin: element at the cursor and cursor+1 modulo n; random: a live target, cursor unchanged; single target short-cut; "
        "LeastTime: a probe is the element at the cursor with the cursor advanced, a non-probe pick is the root of the heap array and its latency estimate is <= that of every element of the heap array), "
        "of target.Update's EWMA over the reals (dial error -> maximum, first sample -> sample, otherwise trunc(old*alpha + new*(1-alpha))), of heap order for the real heapDown/minHeap "
        "(sift-down loop invariant: every node but the one being sifted is not above its children and the node above it is not above its grandchildren; heapify establishes the order from index 0; "
        "the root is minimal by strong induction on the index, an `induct` obligation with the hypothesis used at the parent index), of heapify only permuting marked non-nil elements, "
        "and that check resets the round-robin cursor only when the sorted live address set changed.",
   note=TRUST+"float64 is treated as real arithmetic; latencies (atomics) are assumed quiescent during one activation of schedule (a concurrent Update during heapify is outside the proof); "
        "that the heap array holds exactly the live targets is proved as 'every element is a live target' (lock invariant) and equal length, not as multiset equality with the live list; "
        "'at most once per Tick' rests on the time comparison in schedule, which is read as written (time.Time is opaque).",
   design="5/C17", technique="contract-based deductive verification: loop invariants for sift-down/heapify, lemma by induction (induct clause), z3 (nonlinear real arithmetic for the EWMA)"),
 "C18": dict(
   text="Deductive proof of the safety core: closed => no registered waiter (lock invariant at every Unlock of wait, Close, check, director, detect), Close and checkPending drain the "
        "waiter table completely (loop invariants over the ghost enumeration of the map), every registered key is below the sequence counter, close(done) happens at most once (typestate guarded by the CAS), "
        "Alive marks a target dead only on ErrDial, every completed health check re-evaluates the live set (check either compares the sorted live addresses with the last ones or clears the list), Call/CallWithContext issue no transport call when routing fails, detect sweeps the waiters (checkPending) exactly once on every tick, and Transport.getConn/newPersistConn report ErrDial - the only error that marks a target down - whenever they cannot hand out a connection observed alive.",
   note=TRUST+"Every clause with a duration (detection time, DialTimeout) is liveness/timing and not decided; waiter release tokens are not tracked yet; the waiter sequence counter is assumed not to wrap.",
   design="5/C18", technique="contract-based deductive verification: lock invariant, loop invariants over map iteration, z3"),

 "C01": dict(
   text="Deductive proof of the decomposition the property rests on: (a) send registers the call and reads the sequence number in one critical section of Conn.mutex (lockset obligations) and hands "
        "exactly that sequence number and the call's own upgrade/method/args to WriteRequest; (b) the default-header encoders put those fields on the wire in the documented format (clientCodec.WriteRequest, "
        "serverCodec.WriteResponse against the wire spec functions of C07), the server answers a request from the same context object (same Seq, same Error text); the default-header read paths hand the protobuf decoder an empty header object (the decoder assigns only fields present on the wire, so a reused object would leak the previous response's reply) and take the decoded fields from inside the frame; (c) read looks the call up by the header's "
        "sequence number under the lock, a call object is written only by the holder of its completion token, and finishCall copies the reply bytes of that same response into the call's own buffer and decodes them into that call's Reply, once.",
   note=TRUST+"Byte-stream framing/fragmentation lives in hslam/socket (assumed); body codecs and the non-default header encoders are interface contracts (assumed) on the Write/Read paths; "
        "that sequence numbers are unique per connection relies on the assumed no-wrap bound of the 64-bit counter; the header decoders are not proved functionally: the bounded stand-in bounded/header_roundtrip_test.go also runs under this check (labelled bounded, not counted); the end-to-end statement over all interleavings is the composition of these per-function facts, which is argued in DESIGN.md, not machine-checked as one theorem.",
   design="5/C01", technique="contract-based deductive verification: lock invariant, lockset, call-site assertions and wire-format postconditions as generated obligations, z3"),
 "C02": dict(
   text="Deductive proof of at-most-once completion by linear ghost tokens: a call's token is created once by the front-end (Go/Call/CallWithContext/Ping/closeStream, or owned by the caller of RoundTrip), handed to the pending table "
        "under Conn.mutex, taken out only by the thread that deletes the entry (read) or by the reader's final sweep, and consumed by (*Call).done; writes to Call.Error/Call.Value require the token. Lock invariant: "
        "before shutdown every registered non-internal call has its token in the table and a non-nil Done channel (done() requires it, so a call that could never be signalled is rejected at the front-end), after shutdown none has its token there. The genuine defect found (send completed a call again after a failed write) is repaired by a fix: commit.",
   note=TRUST+"'Eventually completes' (no leak to a caller that waits forever) needs reader progress and is not decided; Done channels are assumed to have room (as the property states); stream-internal calls (open/stream messages) are exempt from the token discipline; "
        "ghost token creation at the front-ends and the sweep's take-over are ghost updates written by hand (listed in the evidence); Call.Done and Call.upgrade are assumed not to be rewritten while the call is registered (no ownership obligation on those two fields).",
   design="5/C02", technique="contract-based deductive verification: linear ghost tokens under a lock invariant (token tables), ownership obligations on field writes, z3"),
 "C03": dict(
   text="Deductive proof of the safety core: the reader's exit sets shutdown and completes every registered call with a non-nil error in one critical section (loop invariant over the map enumeration), send refuses with ErrShutdown whenever it sees shutdown or closing under the lock "
        "and writes a request only when neither flag was set at registration, read drops responses after shutdown, a second Conn.Close reports ErrShutdown without closing the codec again.",
   note=TRUST+"Bounded time and 'no caller blocks forever' are liveness and not decided; the codec's closed flag is an atomic treated as quiescent; cuts at arbitrary byte offsets are hslam/socket's framing (assumed).",
   design="5/C03", technique="contract-based deductive verification: lock invariant, loop invariant over map iteration, call-site assertions, z3"),
 "C04": dict(
   text="Deductive proof with ghost event counters: on every path of ServeRequest/handleRequest/callService/sendResponse a plain request runs the handler (funcs.ValueCall) exactly once and hands exactly one response to the codec, a heartbeat or stream-open never runs a handler inline "
        "(handleRequest requires Heartbeat != 1), serverCodec.WriteResponse writes exactly one message for the default header; Transport.Call/Go/RoundTrip/CallWithContext/Ping and the Client wrappers issue at most one call (no retry).",
   note=TRUST+"hslam/funcs (reflection call) and hslam/scheduler are assumed contracts; that each decoded request is scheduled once relies on ServeCodec's loop (one ServeRequest per message read, proved) and on the scheduler running each task once (assumed); the poll-mode serve callback of listen is under contract, its accept callback and Server.Close are not.",
   design="5/C04", technique="contract-based deductive verification with ghost counters, z3"),
 "C05": dict(
   text="Deductive proof of the client-side structural core: with client pipelining (readSched set) no call is completed inline by the reader - the error branch and the reply branch both go through the ordered completion queue (call-site assertion on every inline done) - "
        "and requests are written through writeSched; on the server a plain request is handed to the global unordered scheduler only when the connection has no ordered queue, ServeCodec passes the ordered queue to every ServeRequest when pipelining is on, and the poll-mode "
        "serve callback dispatches (or enqueues) each request while still holding the per-connection recving lock it read it under. The genuine defect found (client error branch completed inline) is repaired by a fix: commit.",
   note=TRUST+"FIFO order and single-worker execution of hslam/scheduler queues are assumed; 'executed one at a time in send order' is the composition of these structural facts with that assumption, not a single theorem.",
   design="5/C05", technique="contract-based deductive verification: call-site assertions and spawn rule, z3"),
 "C06": dict(
   text="Deductive proof that the server puts ctx.Error verbatim and unmodified into the response of the same request (sendResponse/WriteResponse against the wire spec), that the client's error branch writes only the failing call (token ownership) and never decodes into its Reply, "
        "that a failed write removes the call from the pending table before completing it, and that the error handed to the caller does not alias the recycled read buffer. The genuine defect found (error text aliasing the pooled buffer) is repaired by a fix: commit.",
   note=TRUST+"Error texts are assumed non-empty (as the property states) and below 2^40 bytes; err.Error() of handler errors is an interface contract; equality of the text end to end composes the encoder (C07) and decoder contracts, the decoders being proved for safety only.",
   design="5/C06", technique="contract-based deductive verification: call-site assertions over ghost error text, token ownership, z3"),
 "C10": dict(
   text="Deductive proof of the safety core: stream.stop sets the closed flag under the stream mutex and broadcasts, Close stops then calls the close hook, WriteMessage refuses after closed; the client reader's exit stops every registered stream (loop invariant), "
        "ServeCodec's teardown closes every server stream of the connection exactly via the streams table, the close-stream request closes only a registered stream (nil-safe) and is answered; wait-group balance of ServeRequest: it calls wg.Add(1) exactly once for every task it schedules with the wait group, each such task (and handleRequest given a wait group) calls Done exactly once, so teardown's wg.Wait() is not left waiting by a missing Done or a surplus Add.",
   note=TRUST+"Promptness/'no handler stays blocked' is liveness (sync.Cond wake-up is assumed). stream.ReadMessage waits only when it has seen the closed flag clear since it last held the lock (Cond.Wait modelled as unlock+lock); the poll-mode end-of-connection branch of listen is under contract: the genuine defect found there (streams never stopped) is repaired by a fix: commit. Server.Close/listen's accept loop are not under contract.",
   design="5/C10", technique="contract-based deductive verification: lock invariants, loop invariants, z3"),
 "C11": dict(
   text="Deductive proof of the copy-before-recycle obligations on the request/response paths: the reply bytes of a call live in the caller's own buffer or in a fresh allocation when the read buffer is returned to the pool (finishCall), "
        "the error text of a failed call is a private copy (read), handler arguments are decoded from a fresh copy - neither the read buffer nor the context buffer handed to the handler - unless NoCopy is set (readRequestBody), finishCall writes a caller buffer only below the reported length (bounds obligations), and a Call returned to the pool keeps no context buffer or reply value (pool invariant of callPool, obligation at PutCall).",
   note=TRUST+"Pool exclusivity (a buffer obtained from a pool is held by nobody else) is assumed; the caller's context buffer is assumed not to be the read buffer; stream messages are decoded from the reader's own buffer or a private copy, never from the pooled event buffer, unless NoCopy is set (stream.ReadMessage); third-party body codecs are not under contract.",
   design="5/C11", technique="contract-based deductive verification: aliasing assertions at recycle points, z3"),
 "C19": dict(
   text="Deductive proof that CallWithContext recycles the call only on the completion branch and returns exactly ctx.Err() on the cancellation branch (ghost counters on PutCall / Context.Err), that an abandoned call stays registered so that a late response is consumed without touching any other call "
        "(token ownership of Call fields, unknown sequence numbers write no call), and that finishCall uses the caller's buffer iff its capacity suffices and never slices beyond it.",
   note=TRUST+"'As soon as the context is done' is timing and not decided; context.Context is an interface contract.",
   design="5/C19", technique="contract-based deductive verification: ghost counters, ownership obligations, bounds obligations, z3"),
 "C20": dict(
   text="Deductive proof of the safety core for Conn, Client and the per-connection server loop: Conn.Close closes the codec exactly when closing was not yet set and reports ErrShutdown otherwise, the reader's exit closes every per-connection queue it owns, "
        "NewConnWithCodec starts exactly one reader on a fresh connection, ServeCodec and the poll-mode end-of-connection branch close their codec exactly once and every stream and queue of the connection, Transport.Close closes its done channel at most once and drains every idle queue, Client.Close drains all waiters and closes done at most once; ServeRequest keeps the wait group balanced (one Add per scheduled task that owes one Done), so ServeCodec's wg.Wait() before the codec is closed can return.",
   note=TRUST+"Transport.Close is under contract (done closed at most once by the winner of the CAS - ghost close token; idle queues drained; lock invariant kept), Server.Close closes every listener under Server.mut (structural), listen's accept loop is not under contract; goroutine exit and Listen returning are liveness of hslam/socket and not decided.",
   design="5/C20", technique="contract-based deductive verification: typestate and ghost counters, z3"),
 "C15": dict(
   text="Deductive proof of the safety core: the housekeeping loop (Transport.run) and CloseIdleConnections close an active connection only after NumCalls() == 0 was observed for it in the same iteration, under the pool lock (call-site assertion on every such Close), "
        "idle queues are drained completely before their map entry is dropped (Close, CloseIdleConnections), and all three functions preserve the pool lock invariant of C13 through their nested loops (modular contract for conns.Delete, loop invariants over the map enumerations).",
   note=TRUST+"Retirement after KeepAlive / closing after IdleConnTimeout are timing clauses and not decided; a call that obtained the connection before it was retired and sends afterwards (check-then-act outside the pool lock) is outside the contracts; connQueue is an assumed abstract data type; "
        "'Transport.Close closes every pooled connection' is proved for the idle queues (drained) and is structural for the active lists (every element's Close is called in the loop; not stated as a postcondition).",
   design="5/C15", technique="contract-based deductive verification: lock invariant through nested loops, call-site assertions over ghost observations, z3"),
 "C08": dict(
   text="Deductive proof of panic-freedom: every index, slice, nil-dereference, type-assertion and callee-precondition obligation generated from the "
        "header decoders and upgrade.Unmarshal is discharged for all byte strings (precondition true), and accepted fields are proved to lie inside the frame; "
        "the genuine defects found (truncated frames panicked the four decoders, fields could extend behind len(data); fifteen upgrade flag bytes panicked the dispatcher) were replayed on the real code and are repaired by fix: commits; "
        "on the repaired tree every obligation discharges, and accepted header fields are proved to lie inside the frame.",
   note=TRUST+"Also covered now: the server dispatch path (ServeRequest, handleRequest, readRequestBody, callService, sendResponse, ServeCodec) for every upgrade flag byte, and the client read path (recv, read, finishCall); "
        "the fifteen crashing flag bytes found there are repaired by a fix: commit. Also covered: the poll-mode serve callback of listen. Not covered: the json header (encoding/json trusted), panics needing an interleaving beyond the lock discipline.",
   design="5/C08", technique="contract-based deductive verification (panic-freedom obligations from go/ssa, z3), counterexamples replayed via go test -overlay"),
}
checks=[]
for p in props:
    i=p["id"]
    if i in claimed:
        c=claimed[i]
        checks.append({"property_id":i,"quick_cmd":"/verif/check %s quick"%i,"thorough_cmd":"/verif/check %s thorough"%i,
          "evidence_file":"/verif/evidence/%s.json"%i,"replay_cmd_template":"cd /repo && go test -overlay <overlay mapping /repo/zz_govc_replay_test.go to {path}> -vet=off -run '^TestGovcReplay$' .",
          "engine":"govc","level_claimed":{"category":"proof","text":c["text"],"design_ref":c["design"]},"level_note":c["note"],"technique":c["technique"]})
NA = {
 "C09": "Exactly-once, in-order delivery per stream is a property of whole message histories over two hslam/scheduler queues and of a stream phase kept in an upgrade object that one thread mutates while another reads it (the design reading found a message consumed as a second ack there). "
        "The per-function contracts in reach prove routing by sequence number, the internal/stream flag relation and copy-before-release on this path (tagged C09 in the contract file), but no contract over a single call expresses 'the sequence delivered equals the sequence written', and the racy phase field would need an ownership model of the shared upgrade object that was not built. Not claimed rather than switching technique.",
 "C12": "Equality of outcomes across every network/codec/mode combination is a relational property of whole workloads over third-party transports (tcp/unix/http/ws/TLS, netpoll); a function contract cannot state it. The mode flags are universally quantified in the contracts of C01/C04/C06/C08/C11, which is the only part in reach; the Options resolution functions are not under contract.",

}
na=[{"property_id":p["id"],"reason":NA.get(p["id"],"check not finished: no contract decides this property yet; no other technique is substituted")} for p in props if p["id"] not in claimed]
m={"version":1,
 "setup_cmd":"cd /verif/govc && GOFLAGS=-mod=mod GOPROXY=off GOSUMDB=off GOTOOLCHAIN=local go build -o /verif/bin/govc ./cmd/govc",
 "hooks":{"guard":"verif","enable":"go/packages loads /repo with -tags verif, which adds the comment-only contract file contracts_verif.go; no executable code is guarded",
          "baseline_off_cmd":"cd /repo && GOFLAGS=-mod=mod GOPROXY=off GOSUMDB=off go test -vet=off -count=1 -timeout 25m ./...",
          "source_commits":[l.strip() for l in open('/verif/hook_commits.txt')] if __import__('os').path.exists('/verif/hook_commits.txt') else [],
          "add_only":True},
 "engines":[{"name":"govc","path":"/verif/govc","serves_properties":sorted(claimed),"kind_free_text":"own verification-condition generator over go/ssa with contracts in /repo/contracts_verif.go; obligations discharged by z3 4.8.12 / z3 5.1.0"}],
 "checks":checks,
 "notes":"Contract-based deductive verification; see DESIGN.md. Known findings: /verif/known_findings.json.",
 "not_applicable":na}
json.dump(m,open('/verif/MANIFEST.json','w'),indent=1)
print("claimed",sorted(claimed))
