#!/usr/bin/env python3
"""Regenerates /verif/MANIFEST.json from the table below (claimed checks) and properties.jsonl."""
import json
props=[json.loads(l) for l in open('/verif/properties.jsonl')]
TRUST = ("Trusted base: the VC generator govc itself (SSA semantics, weakest-precondition rules, engine-side quantifier "
         "instantiation, its own integer translation), golang.org/x/tools/go/ssa, z3 4.8.12 and z3 5.1.0 (z3's int-blasting "
         "mode only proposes models which a trusted configuration re-checks), the Go compiler agreeing with the Go spec. "
         "Integers are exact bit-vectors; slice off/len/cap are 48-bit (allocations of 2^47+ elements assumed to fail). ")
claimed = {
 "C07": dict(
   text="Unbounded deductive proof: every header encoder (pb request/response MarshalTo/Marshal/Size, code request/response Marshal), the varint "
        "primitives of hslam/code (verified from the module source), checkBuffer and the upgrade byte meet a wire-format spec function written "
        "from the documented formats, for every field value, every length up to 2^47 and every capacity/content of the scratch buffer; varint loops are "
        "unrolled to the operand width (10) with an unwinding assertion, which is complete. Decoder functional (round-trip) cases and the json header are listed in level_note.",
   note=TRUST+"encoding/json is trusted (only struct tags are checked); decoders are proved only for their safety case (C08) so far; "
        "preconditions of the encoders (scratch buffer does not alias the fields) are checked at their in-repo call sites only where those are under contract.",
   design="5/C07", technique="contract-based deductive verification: generated WP obligations over go/ssa, discharged by z3"),
 "C08": dict(
   text="Deductive proof of panic-freedom: every index, slice, nil-dereference, type-assertion and callee-precondition obligation generated from the "
        "header decoders and upgrade.Unmarshal is discharged for all byte strings (precondition true), and accepted fields are proved to lie inside the frame; "
        "the obligations that fail on the pinned tree are genuine defects (truncated frames panic the four decoders; over-read behind len) replayed on the real code "
        "and listed in known_findings.json.",
   note=TRUST+"Dispatch path (ServeRequest..sendResponse), Conn.read and the teardown typestate are not under contract yet; panics needing an interleaving are out of reach.",
   design="5/C08", technique="contract-based deductive verification (panic-freedom obligations from go/ssa, z3), counterexamples replayed via go test -overlay"),
}
checks=[]
for p in props:
    i=p["id"]
    if i in claimed:
        c=claimed[i]
        checks.append({"property_id":i,"quick_cmd":"/verif/check %s quick"%i,"thorough_cmd":"/verif/check %s thorough"%i,
          "evidence_file":"/verif/evidence/%s.json"%i,"replay_cmd_template":"cd /repo && go test -overlay <overlay mapping /repo/zz_govc_replay_test.go to {path}> -vet=off -run '^TestGovcReplay$' .",
          "engine":"govc","level_claimed":{"category":"proof","text":c["text"],"design_ref":c["design"]},"level_note":c["note"],"technique":c["technique"]})
na=[{"property_id":p["id"],"reason":"check not finished yet: contracts for this property are still being brought under the verifier (DESIGN.md section 7 gives the order); no other technique is substituted"} for p in props if p["id"] not in claimed]
m={"version":1,
 "setup_cmd":"cd /verif/govc && GOFLAGS=-mod=mod GOPROXY=off GOSUMDB=off GOTOOLCHAIN=local go build -o /verif/bin/govc ./cmd/govc",
 "hooks":{"guard":"verif","enable":"go/packages loads /repo with -tags verif, which adds the comment-only contract file contracts_verif.go; no executable code is guarded",
          "baseline_off_cmd":"cd /repo && GOFLAGS=-mod=mod GOPROXY=off GOSUMDB=off go test -vet=off -count=1 -timeout 25m ./...",
          "source_commits":[l.strip() for l in open('/verif/hook_commits.txt')] if __import__('os').path.exists('/verif/hook_commits.txt') else [],
          "add_only":True},
 "engines":[{"name":"govc","path":"/verif/govc","serves_properties":sorted(claimed),"kind_free_text":"own verification-condition generator over go/ssa with contracts in /repo/contracts_verif.go; obligations discharged by z3 4.8.12 / z3 5.1.0"}],
 "checks":checks,
 "notes":"Contract-based deductive verification; see DESIGN.md. Known findings: /verif/known_findings.json.",
 "not_applicable":na}
json.dump(m,open('/verif/MANIFEST.json','w'),indent=1)
print("claimed",sorted(claimed))
