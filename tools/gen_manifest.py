#!/usr/bin/env python3
"""Regenerates /verif/MANIFEST.json from the table below (claimed checks) and properties.jsonl."""
import json
props=[json.loads(l) for l in open('/verif/properties.jsonl')]
TRUST = ("Trusted base: the VC generator govc itself (SSA semantics, weakest-precondition rules, engine-side quantifier "
         "instantiation, its own integer translation), golang.org/x/tools/go/ssa, z3 4.8.12 and z3 5.1.0 (z3's int-blasting "
         "mode only proposes models which a trusted configuration re-checks), the Go compiler agreeing with the Go spec. "
         "Integers are exact bit-vectors; slice off/len/cap are 48-bit (allocations of 2^47+ elements assumed to fail). ")
claimed = {
 "C07": dict(
   text="Unbounded deductive proof: every header encoder (pb request/response MarshalTo/Marshal/Size, code request/response Marshal), the varint "
        "primitives of hslam/code (verified from the module source), checkBuffer and the upgrade byte meet a wire-format spec function written "
        "from the documented formats, for every field value, every length up to 2^47 and every capacity/content of the scratch buffer; varint loops are "
        "unrolled to the operand width (10) with an unwinding assertion, which is complete. Decoder functional (round-trip) cases and the json header are listed in level_note.",
   note=TRUST+"encoding/json is trusted (only struct tags are checked); decoders are proved only for their safety case (C08) so far; "
        "preconditions of the encoders (scratch buffer does not alias the fields) are checked at their in-repo call sites only where those are under contract.",
   design="5/C07", technique="contract-based deductive verification: generated WP obligations over go/ssa, discharged by z3"),

 "C13": dict(
   text="Deductive proof of the pool-size lock invariant of Transport.connsMu (for every address: active <= MaxConnsPerHost and idle <= MaxConnsPerHost - active; idle queue "
        "length <= capacity <= MaxIdleConnsPerHost; list and queue entries belong to their key) at every Unlock of getConn (all nine return paths, including the once.Do "
        "normalisation of the limits) for all interleavings (monitor rule: guarded state is havocked at Lock and only the invariant is assumed), all limits and all addresses.",
   note=TRUST+"run, CloseIdleConnections and Close (loops over both maps) are not under contract yet, so the invariant is proved for getConn/newPersistConn/conns.Cursor only; "
        "connQueue is an abstract data type with assumed (trusted) contracts; counts pool membership, not kernel sockets; exported limit fields are assumed not to be written after first use.",
   design="5/C13", technique="contract-based deductive verification: lock invariant (Owicki-Gries monitor rule) as generated obligations at every Unlock, z3"),
 "C14": dict(
   text="Deductive proof that getConn returns only a connection whose ghost dial address equals the requested address and which was observed alive under its mutex during the call "
        "(or freshly dialed), that newPersistConn reports ErrDial on every dial failure, and that each Transport call form issues at most one call, on exactly the connection "
        "returned for that address, and marks and closes it when the call reports ErrShutdown. The genuine defect found by the aliveSeen postcondition (second idle path) is repaired by a fix: commit.",
   note=TRUST+"Conn.Call/Go/... are assumed contracts here (ghost call counter); Transport.Go/RoundTrip wrappers not yet under contract; the history claim 'at most one failure per pooled connection' is not decided.",
   design="5/C14", technique="contract-based deductive verification with ghost address/observation state, z3"),
 "C16": dict(
   text="Deductive proof of the Client lock invariant (every element of the live list and of the heap array is a value of the current target map under its own address; map keys are "
        "non-empty) at every Unlock of Update, check, wait, Close, director and detect, that schedule returns only live targets, and that each of the six call forms passes exactly the "
        "routed address (Director result or scheduled target) to the transport, at most once.",
   note=TRUST+"Director hook and RoundTripper are interface/dynamic contracts (assumed); target.alive is racy by design and read as is; NewClient and run are not under contract.",
   design="5/C16", technique="contract-based deductive verification: lock invariant + ghost routing record, z3"),
 "C17": dict(
   text="Deductive proof of schedule's postconditions (round-robin: element at the cursor and cursor+1 modulo n; random: a live target, cursor unchanged; single target short-cut), "
        "of target.Update's EWMA over the reals (dial error -> maximum, first sample -> sample, otherwise trunc(old*alpha + new*(1-alpha))) and of heapDown/minHeap preserving the "
        "element multiset marking (heapify only permutes, bounds and nil-safety).",
   note=TRUST+"float64 is treated as real arithmetic; heap-order minimality of the root (LeastTime non-probe pick) is NOT proved deductively yet (bounded stand-in planned); latencies are assumed quiescent during one activation.",
   design="5/C17", technique="contract-based deductive verification, z3 (nonlinear real arithmetic for the EWMA)"),
 "C18": dict(
   text="Deductive proof of the safety core: closed => no registered waiter (lock invariant at every Unlock of wait, Close, check, director, detect), Close and checkPending drain the "
        "waiter table completely (loop invariants over the ghost enumeration of the map), every registered key is below the sequence counter, close(done) happens at most once (typestate guarded by the CAS), "
        "Alive marks a target dead only on ErrDial, and Call/CallWithContext issue no transport call when routing fails.",
   note=TRUST+"Every clause with a duration (detection time, DialTimeout) is liveness/timing and not decided; waiter release tokens are not tracked yet; the waiter sequence counter is assumed not to wrap.",
   design="5/C18", technique="contract-based deductive verification: lock invariant, loop invariants over map iteration, z3"),
 "C08": dict(
   text="Deductive proof of panic-freedom: every index, slice, nil-dereference, type-assertion and callee-precondition obligation generated from the "
        "header decoders and upgrade.Unmarshal is discharged for all byte strings (precondition true), and accepted fields are proved to lie inside the frame; "
        "the obligations that fail on the pinned tree are genuine defects (truncated frames panic the four decoders; over-read behind len) replayed on the real code "
        "and listed in known_findings.json.",
   note=TRUST+"Dispatch path (ServeRequest..sendResponse), Conn.read and the teardown typestate are not under contract yet; panics needing an interleaving are out of reach.",
   design="5/C08", technique="contract-based deductive verification (panic-freedom obligations from go/ssa, z3), counterexamples replayed via go test -overlay"),
}
checks=[]
for p in props:
    i=p["id"]
    if i in claimed:
        c=claimed[i]
        checks.append({"property_id":i,"quick_cmd":"/verif/check %s quick"%i,"thorough_cmd":"/verif/check %s thorough"%i,
          "evidence_file":"/verif/evidence/%s.json"%i,"replay_cmd_template":"cd /repo && go test -overlay <overlay mapping /repo/zz_govc_replay_test.go to {path}> -vet=off -run '^TestGovcReplay$' .",
          "engine":"govc","level_claimed":{"category":"proof","text":c["text"],"design_ref":c["design"]},"level_note":c["note"],"technique":c["technique"]})
na=[{"property_id":p["id"],"reason":"check not finished yet: contracts for this property are still being brought under the verifier (DESIGN.md section 7 gives the order); no other technique is substituted"} for p in props if p["id"] not in claimed]
m={"version":1,
 "setup_cmd":"cd /verif/govc && GOFLAGS=-mod=mod GOPROXY=off GOSUMDB=off GOTOOLCHAIN=local go build -o /verif/bin/govc ./cmd/govc",
 "hooks":{"guard":"verif","enable":"go/packages loads /repo with -tags verif, which adds the comment-only contract file contracts_verif.go; no executable code is guarded",
          "baseline_off_cmd":"cd /repo && GOFLAGS=-mod=mod GOPROXY=off GOSUMDB=off go test -vet=off -count=1 -timeout 25m ./...",
          "source_commits":[l.strip() for l in open('/verif/hook_commits.txt')] if __import__('os').path.exists('/verif/hook_commits.txt') else [],
          "add_only":True},
 "engines":[{"name":"govc","path":"/verif/govc","serves_properties":sorted(claimed),"kind_free_text":"own verification-condition generator over go/ssa with contracts in /repo/contracts_verif.go; obligations discharged by z3 4.8.12 / z3 5.1.0"}],
 "checks":checks,
 "notes":"Contract-based deductive verification; see DESIGN.md. Known findings: /verif/known_findings.json.",
 "not_applicable":na}
json.dump(m,open('/verif/MANIFEST.json','w'),indent=1)
print("claimed",sorted(claimed))
