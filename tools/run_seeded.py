#!/usr/bin/env python3
"""Applies each seeded change under /verif/seeded/<name>/patch.diff to /repo, runs the quick check of its property,
undoes the change, and writes /verif/seeded/results.json. usage: run_seeded.py [name-substring ...]"""
import json,os,subprocess,sys,time,shutil,tempfile,atexit
# the evidence files describe the unchanged tree: keep them out of the way while changed trees are checked
_ev=tempfile.mkdtemp(prefix='govc-evidence-')
shutil.copytree('/verif/evidence',_ev+'/evidence')
def _restore():
    shutil.rmtree('/verif/evidence',ignore_errors=True); shutil.copytree(_ev+'/evidence','/verif/evidence'); shutil.rmtree(_ev,ignore_errors=True)
atexit.register(_restore)
root='/verif/seeded'
sel=sys.argv[1:]
res={}
rp=os.path.join(root,'results.json')
if os.path.exists(rp): res=json.load(open(rp))
for name in sorted(os.listdir(root)):
    d=os.path.join(root,name)
    if not os.path.isdir(d) or not os.path.exists(d+'/patch.diff'): continue
    if sel and not any(s in name for s in sel): continue
    meta=json.load(open(d+'/meta.json'))
    prop=meta['property']
    st=subprocess.run(['git','-C','/repo','status','--porcelain'],capture_output=True,text=True).stdout.strip()
    if st:
        print('repo not clean, abort:',st); sys.exit(2)
    a=subprocess.run(['git','-C','/repo','apply',d+'/patch.diff'],capture_output=True,text=True)
    if a.returncode!=0:
        res[name]={'property':prop,'applied':False,'error':a.stderr[:300]}; print(name,'PATCH DOES NOT APPLY',a.stderr[:200]); continue
    t=time.time()
    try:
        r=subprocess.run(['/verif/check',prop,'quick'],capture_output=True,text=True,timeout=1800)
        vio=[l for l in r.stdout.split('\n') if l.startswith('VIOLATION')]
        res[name]={'property':prop,'applied':True,'exit':r.returncode,'violations':vio[:6],'n_violations':len(vio),'seconds':round(time.time()-t,1),'summary':meta.get('summary','')[:300]}
        print(name,prop,'exit',r.returncode,len(vio),'violations',round(time.time()-t,1),'s')
        for v in vio[:3]: print('    ',v[:200])
    finally:
        subprocess.run(['git','-C','/repo','checkout','--','.'])
    json.dump(res,open(rp,'w'),indent=1)
