#!/usr/bin/env python3
"""Rewrites the block between the SEEDED-TABLE markers of DESIGN.md from seeded/results.json."""
import json,os,re
res=json.load(open('/verif/seeded/results.json'))
rows=["| change | property | file(s) | what was changed | caught by the property's quick check | first failing obligation |","|---|---|---|---|---|---|"]
caught=0
for name in sorted(res):
    r=res[name]
    meta=json.load(open(f'/verif/seeded/{name}/meta.json'))
    files=', '.join(meta.get('files',[]))[:40]
    summ=(r.get('summary') or meta.get('summary',''))[:150].replace('|','/').replace('\n',' ')
    ok=r.get('exit')==1
    caught+=ok
    first=''
    if r.get('violations'):
        m=re.search(r'replays/[^/]+/(.*?)\.txt',r['violations'][0])
        first=(m.group(1) if m else '')[:90].replace('|','/')
    rows.append(f"| {name} | {r['property']} | {files} | {summ} | {'yes' if ok else '**no**'} | `{first}` |")
rows.append("")
rows.append(f"Caught: {caught} of {len(res)}. A change that is not caught is listed with **no**; the reason is given in the text below the table.")
s=open('/verif/DESIGN.md').read()
a=s.index('<!-- SEEDED-TABLE-BEGIN -->')+len('<!-- SEEDED-TABLE-BEGIN -->')
b=s.index('<!-- SEEDED-TABLE-END -->')
s=s[:a]+'\n'+'\n'.join(rows)+'\n'+s[b:]
open('/verif/DESIGN.md','w').write(s)
print('caught',caught,'of',len(res))
