#!/usr/bin/env python3
"""Like run_seeded.py, but leaves /repo alone: every seeded change is applied to its own scratch copy of /repo's HEAD and
checked with `govc check -repo <copy> -verif <scratch verif dir>` (same binary, same contracts, same known findings), several
at a time. usage: run_seeded_par.py [-j N] name-substring ...   Results are merged into /verif/seeded/results.json."""
import json,os,subprocess,sys,time,shutil,tempfile,concurrent.futures as cf
root='/verif/seeded'
args=sys.argv[1:]
J=3
if args and args[0]=='-j': J=int(args[1]); args=args[2:]
env=dict(os.environ,GOFLAGS='-mod=mod',GOPROXY='off',GOSUMDB='off',GOTOOLCHAIN='local')
def one(name):
    d=os.path.join(root,name)
    meta=json.load(open(d+'/meta.json')); prop=meta['property']
    t=tempfile.mkdtemp(prefix='seedrun-')
    try:
        os.makedirs(t+'/repo'); os.makedirs(t+'/verif/evidence'); os.makedirs(t+'/verif/replays')
        subprocess.run('git -C /repo archive HEAD | tar -x -C '+t+'/repo',shell=True,check=True)
        for f in ('known_findings.json','properties.jsonl'): shutil.copy('/verif/'+f,t+'/verif/'+f)
        shutil.copytree('/verif/bounded',t+'/verif/bounded')
        a=subprocess.run(['git','apply',d+'/patch.diff'],cwd=t+'/repo',capture_output=True,text=True)
        if a.returncode!=0: return name,{'property':prop,'applied':False,'error':a.stderr[:300]}
        t0=time.time()
        r=subprocess.run(['/verif/bin/govc','check','-repo',t+'/repo','-verif',t+'/verif','-prop',prop,'-tier','quick','-j','6'],capture_output=True,text=True,timeout=2400,env=env)
        vio=[l.replace(t,'') for l in r.stdout.split('\n') if l.startswith('VIOLATION')]
        return name,{'property':prop,'applied':True,'exit':r.returncode,'violations':vio[:6],'n_violations':len(vio),'seconds':round(time.time()-t0,1),'summary':meta.get('summary','')[:300],'ran':'scratch copy of /repo HEAD (tools/run_seeded_par.py)'}
    finally:
        shutil.rmtree(t,ignore_errors=True)
names=[n for n in sorted(os.listdir(root)) if os.path.exists(os.path.join(root,n,'patch.diff')) and (not args or any(s in n for s in args))]
rp=os.path.join(root,'results.json')
with cf.ThreadPoolExecutor(J) as ex:
    for name,res in ex.map(one,names):
        allr=json.load(open(rp)) if os.path.exists(rp) else {}
        allr[name]=res; json.dump(allr,open(rp,'w'),indent=1)
        print(name,res['property'],'exit',res.get('exit'),res.get('n_violations'),'violations',res.get('seconds'),'s',flush=True)
        for v in res.get('violations',[])[:2]: print('    ',v[:220],flush=True)
