#!/usr/bin/env python3
"""Confirms a seeded change written by a sub-agent and files it under /verif/seeded/<name>/.
usage: intake_seeded.py <dir with patch.diff demo_test.go meta.json> <name>
Runs, in a scratch copy of /repo's HEAD (removed afterwards) inside a private network namespace (the suite listens on fixed
ports): the demonstration on the unchanged tree (must pass), then with the patch applied the whole suite (must pass) and the
demonstration (must fail)."""
import json,os,subprocess,sys,shutil,tempfile,re
src,name=sys.argv[1],sys.argv[2]
env=dict(os.environ,GOFLAGS='-mod=mod',GOPROXY='off',GOSUMDB='off',GOTOOLCHAIN='local')
d=tempfile.mkdtemp(prefix='seedchk-')
def sh(cmd,timeout=900):
    r=subprocess.run(['unshare','-rn','sh','-c','ip link set lo up 2>/dev/null; '+cmd],cwd=d,env=env,capture_output=True,text=True,timeout=timeout)
    return r.returncode,(r.stdout+r.stderr)[-1500:]
try:
    subprocess.run('git -C /repo archive HEAD | tar -x -C '+d,shell=True,check=True)
    meta=json.load(open(src+'/meta.json'))
    demo=open(src+'/demo_test.go').read()
    m=re.search(r'func (TestSeeded\w*)\(',demo)
    tn=m.group(1)
    shutil.copy(src+'/demo_test.go',d+'/zz_seeded_demo_test.go')
    rc0,o0=sh("go test -vet=off -count=1 -timeout 120s -run '^%s$' ."%tn)
    a=subprocess.run(['git','apply',os.path.abspath(src+'/patch.diff')],cwd=d,capture_output=True,text=True)
    if a.returncode!=0:
        print(name,'PATCH DOES NOT APPLY',a.stderr[:300]); sys.exit(1)
    rc1,o1=sh("go test -vet=off -count=1 -timeout 120s -run '^%s$' ."%tn)
    os.remove(d+'/zz_seeded_demo_test.go')
    rc2,o2=sh("go test -vet=off -count=1 -timeout 25m ./...",1800)
    ok = rc0==0 and rc1!=0 and rc2==0
    print(name,'demo pristine rc',rc0,'demo changed rc',rc1,'suite changed rc',rc2,'=>','CONFIRMED' if ok else 'REJECTED')
    if not ok:
        print(o0[-400:] if rc0 else '', o2[-600:] if rc2 else '')
        sys.exit(1)
    dst='/verif/seeded/'+name
    os.makedirs(dst,exist_ok=True)
    for f in ('patch.diff','demo_test.go'): shutil.copy(src+'/'+f,dst+'/'+f)
    meta['confirmed']={'demo_passes_on_unchanged':True,'demo_fails_with_change':True,'suite_passes_with_change':True,
                       'how':'tools/intake_seeded.py: scratch copy of /repo HEAD, go test in a private network namespace','demo_test':tn}
    json.dump(meta,open(dst+'/meta.json','w'),indent=1)
finally:
    shutil.rmtree(d,ignore_errors=True)
