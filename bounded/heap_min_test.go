// Bounded stand-in (NOT a proof) for the part of C17 that the contracts do not decide deductively: after minHeap, the
// root of the heap array has the smallest latency, and heapDown restores it after the root changed. The real functions
// are run on every arrangement of latencies drawn from {0..n-1} (with repetitions) for every n <= 6.
// Injected through an overlay by /verif/check C17; bound: n <= 6, latencies in 0..n-1 (46656+... arrangements).
package rpc

import "testing"

func TestGovcBoundedHeapMin(t *testing.T) {
	for n := 1; n <= 6; n++ {
		idx := make([]int, n)
		for {
			h := make([]*target, n)
			for i := range h {
				h[i] = &target{latency: int64(idx[i])}
			}
			minHeap(h)
			for i := range h {
				if h[i].latency < h[0].latency {
					t.Fatalf("minHeap: n=%d latencies=%v: root %d is not minimal (h[%d]=%d)", n, idx, h[0].latency, i, h[i].latency)
				}
			}
			// replace the root by every possible value and sift down
			for v := 0; v < n; v++ {
				g := make([]*target, n)
				for i := range h {
					g[i] = &target{latency: h[i].latency}
				}
				g[0].latency = int64(v)
				heapDown(g, 0, n)
				for i := range g {
					if g[i].latency < g[0].latency {
						t.Fatalf("heapDown: n=%d heap=%v new root %d: root %d is not minimal (g[%d]=%d)", n, idx, v, g[0].latency, i, g[i].latency)
					}
				}
			}
			k := 0
			for k < n {
				idx[k]++
				if idx[k] < n {
					break
				}
				idx[k] = 0
				k++
			}
			if k == n {
				break
			}
		}
	}
}
