// Bounded stand-in (NOT a proof) for the part of C07 the contracts do not decide deductively: the header DECODERS
// invert the encoders (the encoders are proved against the wire format; the decoders only for safety). Every
// registered header encoder (json, code, pb) and the built-in default path encodes and decodes requests and responses
// whose sequence numbers and field lengths sit on the varint boundaries, with fresh and with dirty reused buffers.
// Bound: seq in 11 boundary values; each field length in {0,1,2,127,128,129,16383,16384}; body up to 16384 bytes.
// Injected through an overlay by /verif/check C07.
package rpc

import (
	"bytes"
	"testing"
)

func boundedBytes(n int, seed byte) []byte {
	b := make([]byte, n)
	for i := range b {
		b[i] = 'a' + (seed+byte(i%23))%26 // printable: also valid UTF-8 for the json header
	}
	return b
}

func TestGovcBoundedHeaderRoundTrip(t *testing.T) {
	seqs := []uint64{0, 1, 127, 128, 16383, 16384, 2097151, 2097152, 1 << 35, 1<<63 - 1, 1<<64 - 1}
	lens := []int{0, 1, 2, 127, 128, 129, 16383, 16384}
	for _, name := range []string{"json", "code", "pb"} {
		enc := NewHeaderEncoder(name)()
		codec := enc.NewCodec()
		dirty := make([]byte, 70000)
		for i := range dirty {
			dirty[i] = 0xff
		}
		for _, seq := range seqs {
			for li, ul := range []int{0, 1} {
				for _, ml := range lens[:6] {
					for _, al := range lens {
						req := enc.NewRequest()
						up := boundedBytes(ul, 3)
						method := string(boundedBytes(ml, 7))
						args := boundedBytes(al, byte(11+li))
						req.SetSeq(seq)
						req.SetUpgrade(up)
						req.SetServiceMethod(method)
						req.SetArgs(args)
						for _, buf := range [][]byte{nil, dirty[:0], dirty[:10]} {
							data, err := codec.Marshal(buf, req)
							if err != nil {
								t.Fatalf("%s request marshal: %v", name, err)
							}
							got := enc.NewRequest()
							got.Reset()
							if err := codec.Unmarshal(data, got); err != nil {
								t.Fatalf("%s request unmarshal seq=%d ul=%d ml=%d al=%d: %v", name, seq, ul, ml, al, err)
							}
							if got.GetSeq() != seq || !bytes.Equal(got.GetUpgrade(), up) || got.GetServiceMethod() != method || !bytes.Equal(got.GetArgs(), args) {
								t.Fatalf("%s request round trip differs: seq=%d ul=%d ml=%d al=%d: got seq=%d |u|=%d |m|=%d |a|=%d", name, seq, ul, ml, al, got.GetSeq(), len(got.GetUpgrade()), len(got.GetServiceMethod()), len(got.GetArgs()))
							}
						}
					}
				}
			}
			for _, el := range lens {
				for _, rl := range lens {
					res := enc.NewResponse()
					errText := string(boundedBytes(el, 5))
					reply := boundedBytes(rl, 9)
					res.SetSeq(seq)
					res.SetError(errText)
					res.SetReply(reply)
					for _, buf := range [][]byte{nil, dirty[:0]} {
						data, err := codec.Marshal(buf, res)
						if err != nil {
							t.Fatalf("%s response marshal: %v", name, err)
						}
						got := enc.NewResponse()
						got.Reset()
						if err := codec.Unmarshal(data, got); err != nil {
							t.Fatalf("%s response unmarshal seq=%d el=%d rl=%d: %v", name, seq, el, rl, err)
						}
						if got.GetSeq() != seq || got.GetError() != errText || !bytes.Equal(got.GetReply(), reply) {
							t.Fatalf("%s response round trip differs: seq=%d el=%d rl=%d", name, seq, el, rl)
						}
					}
				}
			}
		}
	}
	// the built-in default header path of the codecs (pbRequest / pbResponse used directly)
	for _, seq := range seqs {
		for _, al := range lens {
			r := &pbRequest{Seq: seq, Upgrade: boundedBytes(1, 1), ServiceMethod: "S.M", Args: boundedBytes(al, 2)}
			data, _ := r.Marshal()
			g := &pbRequest{}
			if err := g.Unmarshal(data); err != nil || g.Seq != r.Seq || !bytes.Equal(g.Upgrade, r.Upgrade) || g.ServiceMethod != r.ServiceMethod || !bytes.Equal(g.Args, r.Args) {
				t.Fatalf("default request round trip differs: seq=%d al=%d err=%v", seq, al, err)
			}
			p := &pbResponse{Seq: seq, Error: string(boundedBytes(al%200, 4)), Reply: boundedBytes(al, 6)}
			data, _ = p.Marshal()
			q := &pbResponse{}
			if err := q.Unmarshal(data); err != nil || q.Seq != p.Seq || q.Error != p.Error || !bytes.Equal(q.Reply, p.Reply) {
				t.Fatalf("default response round trip differs: seq=%d al=%d err=%v", seq, al, err)
			}
		}
	}
}
