#!/usr/bin/env python3
"""Must-fail corpus: each mutant is applied to a scratch copy of /repo (removed afterwards); the verifier must report a
failing obligation whose id contains the expected text, and the scratch tree must still build.
usage: run.py [name-substring ...]"""
import json,os,subprocess,sys,shutil,tempfile
muts=json.load(open('/verif/selftest/mutants.json'))
sel=sys.argv[1:]
env=dict(os.environ,GOFLAGS='-mod=mod',GOPROXY='off',GOSUMDB='off',GOTOOLCHAIN='local')
ok=True
for m in muts:
    if sel and not any(s in m['name'] for s in sel): continue
    d=tempfile.mkdtemp(prefix='govc-mut-')
    try:
        subprocess.run(['rsync','-a','--exclude','.git','/repo/',d+'/'],check=True)
        p=os.path.join(d,m['file']); s=open(p).read()
        if m['old'] not in s:
            print('MUTANT-STALE',m['name'],'(pattern not found)'); ok=False; continue
        open(p,'w').write(s.replace(m['old'],m['new'],1))
        b=subprocess.run(['go','build','./...'],cwd=d,env=env,capture_output=True,text=True)
        if b.returncode!=0:
            print('MUTANT-NOBUILD',m['name'],b.stderr[:300]); ok=False; continue
        r=subprocess.run(['/verif/bin/govc','-repo',d,'-j','8','-timeout','30s','-fn',m['funcs']],capture_output=True,text=True,env=env)
        fails=[l for l in r.stdout.split('\n') if 'FAIL' in l]
        hit=[l for l in fails if m['expect'] in l]
        if hit: print('CAUGHT  ',m['name'],'->',hit[0].strip()[:160])
        else:
            ok=False; print('MISSED  ',m['name'],'; failing obligations:',[l.strip()[:120] for l in fails][:5])
    finally:
        shutil.rmtree(d,ignore_errors=True)
sys.exit(0 if ok else 1)
